#!/usr/bin/env python3
"""seedauto.py <name> <PROP> <agent-out-dir> <needs>: locate the demo files of a sub-agent's output and run seedcheck.py."""
import os, re, subprocess, sys, glob
V = os.path.dirname(os.path.dirname(os.path.abspath(__file__)))
name, prop, out, needs = sys.argv[1:5]
pk2dir = {}
for root, dirs, files in os.walk("/repo"):
    dirs[:] = [d for d in dirs if not d.startswith(".")]
    for f in files:
        if f.endswith(".go") and not f.endswith("_test.go"):
            m = re.search(r"^package (\w+)", open(os.path.join(root, f), errors="replace").read(), re.M)
            if m:
                pk2dir.setdefault(m.group(1), os.path.relpath(root, "/repo"))
            break
args = []
for p in glob.glob(os.path.join(out, "demo", "**", "*.go"), recursive=True):
    rel = os.path.relpath(p, os.path.join(out, "demo"))
    if os.path.dirname(rel) == "":
        pk = re.search(r"^package (\w+)", open(p).read(), re.M).group(1)
        pk = pk[:-5] if pk.endswith("_test") else pk
        d = pk2dir.get(pk, ".")
        rel = os.path.normpath(os.path.join(d, rel))
    args.append("%s:%s" % (p, rel))
cmd = ["python3", os.path.join(V, "tools", "seedcheck.py"), name, prop, os.path.join(out, "patch.diff")] + args + ["--needs=" + needs]
print(" ".join(cmd[:6]), "...", flush=True)
sys.exit(subprocess.call(cmd))
