#!/usr/bin/env python3
"""Sensitivity runner: applies hand-written mutants (tools/mutants.json) or seeded
patches (seeded/<id>/patch.diff) to a scratch worktree of /repo and runs a check
against it (VERIF_REPO=<worktree>). /repo itself is never modified.

  tools/mutate.py list
  tools/mutate.py run <mutant-id>... [--tier quick] [--keep]
  tools/mutate.py prop <PROP>            run all mutants of a property
  tools/mutate.py seeded <dir>...        run seeded/<dir>/patch.diff against its property
"""
import json, os, subprocess, sys, shutil, time

V = os.path.dirname(os.path.dirname(os.path.abspath(__file__)))
REPO = "/repo"
ROOT = "/tmp/vfmut"


def sh(cmd, **kw):
    return subprocess.run(cmd, shell=isinstance(cmd, str), stdout=subprocess.PIPE, stderr=subprocess.STDOUT, text=True, **kw)


def worktree(name):
    d = os.path.join(ROOT, name)
    if os.path.exists(d):
        sh(["git", "-C", REPO, "worktree", "remove", "--force", d])
        shutil.rmtree(d, ignore_errors=True)
    os.makedirs(ROOT, exist_ok=True)
    r = sh(["git", "-C", REPO, "worktree", "add", "--detach", d, "HEAD"])
    if r.returncode != 0:
        raise SystemExit(r.stdout)
    return d


def drop(d):
    sh(["git", "-C", REPO, "worktree", "remove", "--force", d])
    shutil.rmtree(d, ignore_errors=True)
    sh(["git", "-C", REPO, "worktree", "prune"])


def run_check(prop, d, tier, seed=os.environ.get("VERIF_SEED", "1")):
    env = dict(os.environ, VERIF_REPO=d, VERIF_SEED=seed, VERIF_EVIDENCE_DIR=os.path.join(ROOT, "evidence"))
    t0 = time.time()
    r = sh([os.path.join(V, "vf"), "check", prop, "--tier", tier], env=env, cwd=V)
    return r.returncode, r.stdout, time.time() - t0


def apply_mutant(m, d):
    p = os.path.join(d, m["file"])
    s = open(p).read()
    if s.count(m["old"]) < 1:
        return "old string not found in " + m["file"]
    s = s.replace(m["old"], m["new"], 1)
    if "old2" in m:
        if s.count(m["old2"]) < 1:
            return "old2 string not found in " + m["file"]
        s = s.replace(m["old2"], m["new2"], 1)
    open(p, "w").write(s)
    return None


def main():
    ms = json.load(open(os.path.join(V, "tools", "mutants.json")))["mutants"]
    byid = {m["id"]: m for m in ms}
    a = sys.argv[1:]
    tier = "quick"
    keep = False
    if "--tier" in a:
        i = a.index("--tier")
        tier = a[i + 1]
        del a[i:i + 2]
    if "--keep" in a:
        keep = True
        a.remove("--keep")
    if not a or a[0] == "list":
        for m in ms:
            print(m["id"], m["prop"], m["file"], "-", m.get("note", ""))
        return 0
    todo = []
    if a[0] == "run":
        todo = [byid[x] for x in a[1:]]
    elif a[0] == "prop":
        todo = [m for m in ms if m["prop"] in a[1:]]
    elif a[0] == "seeded":
        for sd in a[1:]:
            meta = json.load(open(os.path.join(V, "seeded", sd, "meta.json")))
            todo.append({"id": "seeded-" + sd, "prop": meta["property"], "patch": os.path.join(V, "seeded", sd, "patch.diff"), "expect": "kill"})
    rc_all = 0
    for m in todo:
        d = worktree(m["id"])
        try:
            if "patch" in m:
                r = sh(["git", "-C", d, "apply", m["patch"]])
                err = r.stdout if r.returncode else None
            else:
                err = apply_mutant(m, d)
            if err:
                print("%-28s %-4s APPLY-FAILED %s" % (m["id"], m["prop"], err.strip()[:200]))
                rc_all = 1
                continue
            rc, out, dt = run_check(m["prop"], d, tier)
            expect = m.get("expect", "kill")
            verdict = {0: "SURVIVED", 1: "KILLED", 2: "INCONCLUSIVE"}.get(rc, "rc=%s" % rc)
            ok = (expect == "kill" and rc == 1) or (expect == "survive" and rc == 0)
            print("%-28s %-4s %-12s %5.0fs expect=%s %s" % (m["id"], m["prop"], verdict, dt, expect, "" if ok else "<<< UNEXPECTED"))
            if not ok:
                rc_all = 1
                print("\n".join("      " + l for l in out.splitlines()[-25:]))
            elif rc == 1:
                why = [l for l in out.splitlines() if "violated" in l or "VIOLATION" in l][:2]
                for l in why:
                    print("      " + l.strip()[:240])
            sys.stdout.flush()
        finally:
            if not keep:
                drop(d)
    return rc_all


if __name__ == "__main__":
    sys.exit(main())
