#!/usr/bin/env python3
"""Regenerates /verif/MANIFEST.json from vf_units.py (claimed checks) and NOT_APPLICABLE below."""
import json, os, sys
V = os.path.dirname(os.path.dirname(os.path.abspath(__file__)))
sys.path.insert(0, V)
from vf_units import PROPS, NOT_APPLICABLE  # noqa
BASE = json.load(open("/root/.vp/BASELINE.json"))["cmd"] if os.path.exists("/root/.vp/BASELINE.json") else "cd /repo && go test ./..."
checks = []
for pid in sorted(PROPS):
    p = PROPS[pid]
    if not p.get("claimed", True):
        continue
    checks.append({
        "property_id": pid,
        "quick_cmd": "./vf check %s --tier quick" % pid,
        "thorough_cmd": "./vf check %s --tier thorough" % pid,
        "evidence_file": "/verif/evidence/%s.json" % pid,
        "replay_cmd_template": "./vf replay %s {path}" % pid,
        "engine": "vf",
        "level_claimed": {"category": "exploration", "text": p["level_text"], "design_ref": p.get("design_ref", "DESIGN.md section 4 (%s)" % pid)},
        "level_note": p["level_note"],
        "technique": p["technique"],
    })
m = {
    "version": 1,
    "setup_cmd": "./vf setup",
    "hooks": {
        "guard": "verif",
        "enable": "no hook is committed to /repo: harness test files, the shared generator packages and AST-rewritten copies of single repo files (gsfa writer constants for C06/poll interval, instrumented epoch-set mutex for C09, capacity hint of the sig-exists writer for the package-main units; listed per unit in vf_units.py and in the transform report of each evidence file) are injected at check time with `go test -overlay` + `-modfile` (see DESIGN.md 2.1); the build tag `verif` is nominal and guards no file",
        "baseline_off_cmd": BASE,
        "source_commits": [],
        "add_only": True,
    },
    "engines": [{"name": "vf", "path": "/verif/vf", "serves_properties": sorted(k for k in PROPS if PROPS[k].get("claimed", True)),
                 "kind_free_text": "python3 driver; builds Go test binaries of the repo packages with overlay-injected harnesses (pgregory.net/rapid v1.3.0 generators + stateful sequences, small-scope exhaustive enumeration, Go native fuzzing in the thorough tier), shards them over processes, merges their statistics into evidence/<id>.json"}],
    "checks": checks,
    "not_applicable": NOT_APPLICABLE,
    "notes": "Exit codes of every command: 0 held (KNOWN-FINDING lines allowed), 1 VIOLATION line printed, 2 inconclusive (build failure/timeout/worker death/required generator class not reached). VERIF_SEED selects the rapid seeds. known_findings.json lists open and fixed findings.",
}
json.dump(m, open(os.path.join(V, "MANIFEST.json"), "w"), indent=1)
print("wrote MANIFEST.json with", len(checks), "checks;", len(NOT_APPLICABLE), "not applicable")
