module vfrewrite

go 1.21
