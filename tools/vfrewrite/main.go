// vfrewrite rewrites expressions of one Go source file at the AST level and
// writes the result to a copy; the copy is injected into a check build with
// `go test -overlay`. The repository file itself is never modified.
//
//	vfrewrite -in file.go -out copy.go -spec '[{"old":"1000","new":"4","within":"itemsPerBatch"}]'
//
// A rule replaces every expression whose printed form equals "old" by the
// expression "new". "within" (optional) restricts the rule to declarations /
// statements whose printed form contains that text. The last line of stdout is
// a JSON report {rule index: replacements}; a rule that matches nothing is
// reported with 0 and the caller decides what to do.
package main

import (
	"bytes"
	"encoding/json"
	"flag"
	"fmt"
	"go/ast"
	"go/format"
	"go/parser"
	"go/printer"
	"go/token"
	"os"
	"reflect"
	"strings"
)

type rule struct {
	Old    string `json:"old"`
	New    string `json:"new"`
	Within string `json:"within"`
}

func render(fset *token.FileSet, n any) string {
	var b bytes.Buffer
	printer.Fprint(&b, fset, n)
	return b.String()
}

func main() {
	in := flag.String("in", "", "input file")
	out := flag.String("out", "", "output file")
	spec := flag.String("spec", "[]", "json rules")
	appendText := flag.String("append", "", "declarations appended to the file")
	flag.Parse()
	var rules []rule
	if err := json.Unmarshal([]byte(*spec), &rules); err != nil {
		fmt.Println(`{"error":"bad spec"}`)
		os.Exit(2)
	}
	fset := token.NewFileSet()
	f, err := parser.ParseFile(fset, *in, nil, parser.ParseComments)
	if err != nil {
		fmt.Printf("{\"error\":%q}\n", err.Error())
		os.Exit(2)
	}
	counts := make([]int, len(rules))
	for ri, r := range rules {
		newExpr, err := parser.ParseExpr(r.New)
		if err != nil {
			fmt.Printf("{\"error\":%q}\n", "rule new: "+err.Error())
			os.Exit(2)
		}
		oldNorm := r.Old
		if e, err := parser.ParseExpr(r.Old); err == nil {
			oldNorm = render(token.NewFileSet(), e)
		}
		// visit top-level decls and statements to honour "within"
		var scopeOK func(n ast.Node) bool
		scopeOK = func(n ast.Node) bool { return r.Within == "" || strings.Contains(render(fset, n), r.Within) }
		var replaceIn func(n ast.Node)
		replaceIn = func(root ast.Node) {
			ast.Inspect(root, func(n ast.Node) bool {
				if n == nil {
					return false
				}
				v := reflect.ValueOf(n)
				if v.Kind() == reflect.Ptr {
					v = v.Elem()
				}
				if v.Kind() != reflect.Struct {
					return true
				}
				for i := 0; i < v.NumField(); i++ {
					fld := v.Field(i)
					if !fld.CanSet() {
						continue
					}
					switch fld.Kind() {
					case reflect.Interface:
						if e, ok := fld.Interface().(ast.Expr); ok && e != nil {
							if render(fset, e) == oldNorm {
								fld.Set(reflect.ValueOf(newExpr))
								counts[ri]++
							}
						}
					case reflect.Slice:
						for j := 0; j < fld.Len(); j++ {
							el := fld.Index(j)
							if el.Kind() == reflect.Interface {
								if e, ok := el.Interface().(ast.Expr); ok && e != nil {
									if render(fset, e) == oldNorm {
										el.Set(reflect.ValueOf(newExpr))
										counts[ri]++
									}
								}
							}
						}
					}
				}
				return true
			})
		}
		for _, d := range f.Decls {
			switch dd := d.(type) {
			case *ast.GenDecl:
				for _, s := range dd.Specs {
					if scopeOK(s) {
						replaceIn(s)
					}
				}
			case *ast.FuncDecl:
				if r.Within == "" {
					replaceIn(dd)
					continue
				}
				// statement granularity inside functions
				ast.Inspect(dd, func(n ast.Node) bool {
					if st, ok := n.(ast.Stmt); ok {
						switch st.(type) {
						case *ast.BlockStmt:
							return true
						}
						if strings.Contains(render(fset, st), r.Within) {
							// descend only if a child statement does not also contain it (innermost match)
							inner := false
							ast.Inspect(st, func(m ast.Node) bool {
								if m == st {
									return true
								}
								if cs, ok := m.(ast.Stmt); ok {
									if _, isBlock := cs.(*ast.BlockStmt); !isBlock && strings.Contains(render(fset, cs), r.Within) {
										inner = true
									}
								}
								return !inner
							})
							if !inner {
								replaceIn(st)
								return false
							}
						}
					}
					return true
				})
			}
		}
	}
	var buf bytes.Buffer
	if err := format.Node(&buf, fset, f); err != nil {
		fmt.Printf("{\"error\":%q}\n", err.Error())
		os.Exit(2)
	}
	if *appendText != "" {
		buf.WriteString("\n" + *appendText + "\n")
	}
	if err := os.WriteFile(*out, buf.Bytes(), 0o644); err != nil {
		fmt.Printf("{\"error\":%q}\n", err.Error())
		os.Exit(2)
	}
	rep := map[string]int{}
	for i, r := range rules {
		rep[fmt.Sprintf("%d:%s=>%s", i, r.Old, r.New)] = counts[i]
	}
	b, _ := json.Marshal(rep)
	fmt.Println(string(b))
}
