#!/usr/bin/env python3
"""Write seeded/README.md from seeded/*/meta.json (which check catches which seeded change)."""
import glob, json, os

V = os.path.dirname(os.path.dirname(os.path.abspath(__file__)))


def main():
    rows = []
    for p in sorted(glob.glob(os.path.join(V, "seeded", "*", "meta.json"))):
        m = json.load(open(p))
        name = os.path.basename(os.path.dirname(p))
        patch = open(os.path.join(os.path.dirname(p), "patch.diff")).read()
        files = sorted({l[6:] for l in patch.splitlines() if l.startswith("+++ b/")})
        chk = m.get("check", {})
        hist = m.get("history", [])
        first = hist[0]["verdict"] if hist else chk.get("verdict")
        now = chk.get("verdict")
        if m.get("superseded_by_fix"):
            now = "benign since fix " + m["superseded_by_fix"]
        rows.append((name, m["property"], ", ".join(files), m.get("needs_to_manifest", ""), first, now, chk.get("seconds"),
                     (chk.get("first_report") or [""])[0], m.get("verified"), m.get("note", "")))
    out = ["# Seeded changes", "",
           "Each directory holds one change to rpcpool/yellowstone-faithful written by a sub-agent that saw only the text of one property",
           "(never anything from /verif): `patch.diff` (applies to /repo with `git -C /repo apply`), `demo/` (a test that fails with the",
           "change and passes without it) and `meta.json` (what it needs in order to manifest, what was run, the verdict of the property's",
           "quick check). Every change was confirmed in a scratch worktree with `tools/seedcheck.py`: it compiles, the repository's whole",
           "existing test suite still passes, the demonstration fails with it and passes without it. None of them is ever committed to /repo.",
           "",
           "`first run` is the verdict of the quick check as it was when the change arrived; `now` the verdict after the check was",
           "strengthened (see DESIGN.md 8.5 for what was changed in the checks). To repeat: `python3 tools/seedcheck.py <name> <PROP> seeded/<name>/patch.diff <demo>:<target>`",
           "or by hand `git -C /repo apply seeded/<name>/patch.diff; ./vf check <PROP>; git -C /repo checkout -- .`.",
           "",
           "| change | property | files | needs, in order to manifest | first run | now | s |",
           "|---|---|---|---|---|---|---|"]
    for r in rows:
        out.append("| %s | %s | %s | %s | %s | %s | %s |" % (r[0], r[1], r[2], r[3].replace("|", "/"), r[4], r[5], r[6]))
    out += ["", "## First report of the check on each change", ""]
    for r in rows:
        rep = r[7].strip().lstrip("|").strip()
        out.append("- **%s**: %s%s" % (r[0], rep[:400] if rep else "(no report)", ("  \n  note: " + r[9]) if r[9] else ""))
    caught = sum(1 for r in rows if r[5] == "CAUGHT")
    first = sum(1 for r in rows if r[4] == "CAUGHT")
    sup = sum(1 for r in rows if str(r[5]).startswith("benign"))
    out += ["", "%d changes; %d caught by the checks as they were when the change arrived, %d caught now, %d no longer break the property on the current tree (see note)." % (len(rows), first, caught, sup), ""]
    open(os.path.join(V, "seeded", "README.md"), "w").write("\n".join(out))
    print("\n".join(out[-3:]))


if __name__ == "__main__":
    main()
