#!/usr/bin/env python3
"""Verify a seeded change and run the property's check against it.

  tools/seedcheck.py <name> <PROP> <patch.diff> <demo-file>:<relative-target-path> [...]

Steps (all in a scratch worktree of /repo under /tmp/vfseed, removed afterwards):
  1. the patch applies and `go build ./...` succeeds
  2. the existing test suite passes with the patch (demo files absent)
  3. the demonstration fails with the patch and passes without it
  4. `vf check <PROP> --tier quick` against the patched tree (VERIF_REPO): exit 1 = caught
Writes seeded/<name>/{patch.diff,demo/...,meta.json}.
"""
import json, os, shutil, subprocess, sys, time

V = os.path.dirname(os.path.dirname(os.path.abspath(__file__)))
ENV = dict(os.environ, GOFLAGS="-mod=mod", GOPROXY="off", GOSUMDB="off", GOTOOLCHAIN="local")


def sh(cmd, cwd=None, env=None, timeout=3000):
    p = subprocess.run(cmd, shell=isinstance(cmd, str), cwd=cwd, env=env or ENV, stdout=subprocess.PIPE, stderr=subprocess.STDOUT, text=True, timeout=timeout)
    return p.returncode, p.stdout


def main():
    name, prop, patch = sys.argv[1], sys.argv[2], os.path.abspath(sys.argv[3])
    demos = [a.split(":", 1) for a in sys.argv[4:] if ":" in a and not a.startswith("--")]
    needs = ""
    for a in sys.argv[4:]:
        if a.startswith("--needs="):
            needs = a[len("--needs="):]
    wt = "/tmp/vfseed/" + name
    sh(["git", "-C", "/repo", "worktree", "remove", "--force", wt])
    shutil.rmtree(wt, ignore_errors=True)
    os.makedirs("/tmp/vfseed", exist_ok=True)
    rc, out = sh(["git", "-C", "/repo", "worktree", "add", "--detach", wt, "HEAD"])
    assert rc == 0, out
    meta = {"name": name, "property": prop, "needs_to_manifest": needs, "ran": []}
    ok = True
    try:
        rc, out = sh(["git", "apply", patch], cwd=wt)
        meta["ran"].append({"cmd": "git apply patch.diff", "rc": rc})
        if rc != 0:
            print("PATCH DOES NOT APPLY\n", out)
            return 2
        rc, out = sh("go build ./...", cwd=wt)
        meta["ran"].append({"cmd": "go build ./...", "rc": rc})
        if rc != 0:
            print("BUILD FAILS\n", out[-2000:])
            return 2
        rc, out = sh("go test -vet=off -count=1 ./... 2>&1 | grep -v 'no test files'", cwd=wt)
        failed = [l for l in out.splitlines() if l.startswith("FAIL") or l.startswith("--- FAIL")]
        meta["ran"].append({"cmd": "go test -vet=off -count=1 ./... (existing suite, patch applied)", "failed": failed})
        print("existing suite with patch:", "PASS" if not failed else failed)
        if failed:
            ok = False
        sh("git checkout go.sum", cwd=wt)
        # demo with the patch
        pkgs = set()
        for src, rel in demos:
            dst = os.path.join(wt, rel)
            os.makedirs(os.path.dirname(dst), exist_ok=True)
            shutil.copy(src, dst)
            pkgs.add("./" + os.path.dirname(rel) if os.path.dirname(rel) else ".")
        pk = " ".join(sorted(pkgs))
        rc1, out1 = sh("go test -vet=off -count=1 -run 'Seed|seed|Demo|demo' %s" % pk, cwd=wt)
        meta["ran"].append({"cmd": "demo with patch: go test -run 'Seed|Demo' " + pk, "rc": rc1})
        print("demo with patch: rc=%d (expected != 0)" % rc1)
        sh(["git", "apply", "-R", patch], cwd=wt)
        rc2, out2 = sh("go test -vet=off -count=1 -run 'Seed|seed|Demo|demo' %s" % pk, cwd=wt)
        meta["ran"].append({"cmd": "demo without patch", "rc": rc2})
        print("demo without patch: rc=%d (expected 0)" % rc2)
        if rc1 == 0 or rc2 != 0:
            ok = False
            print(out1[-1500:], "\n-----\n", out2[-1500:])
        # the check against the patched tree
        for src, rel in demos:
            os.remove(os.path.join(wt, rel))
        sh("git checkout go.sum", cwd=wt)
        sh(["git", "apply", patch], cwd=wt)
        env = dict(os.environ, VERIF_REPO=wt, VERIF_EVIDENCE_DIR="/tmp/vfseed/evidence", VERIF_SEED=os.environ.get("VERIF_SEED", "1"))
        t0 = time.time()
        rc3, out3 = sh([os.path.join(V, "vf"), "check", prop, "--tier", "quick"], cwd=V, env=env)
        verdict = {0: "MISSED", 1: "CAUGHT", 2: "INCONCLUSIVE"}.get(rc3, str(rc3))
        why = [l.strip()[:300] for l in out3.splitlines() if "violated" in l][:2]
        meta["check"] = {"cmd": "VERIF_REPO=<patched worktree> ./vf check %s --tier quick" % prop, "rc": rc3, "verdict": verdict, "seconds": round(time.time() - t0), "first_report": why}
        print("CHECK %s: %s (%ds)" % (prop, verdict, time.time() - t0))
        for l in why:
            print("   ", l)
        if rc3 == 2:
            print(out3[-1500:])
        meta["verified"] = ok
        d = os.path.join(V, "seeded", name)
        try:
            old = json.load(open(os.path.join(d, "meta.json")))
            hist = old.get("history", [])
            if "check" in old:
                hist.append({"verif_commit": old.get("verif_commit"), "verdict": old["check"]["verdict"], "seconds": old["check"].get("seconds")})
            meta["history"] = hist
        except (OSError, ValueError):
            pass
        rc_, out_ = sh(["git", "-C", V, "rev-parse", "--short", "HEAD"])
        meta["verif_commit"] = out_.strip()
        os.makedirs(os.path.join(d, "demo"), exist_ok=True)
        shutil.copy(patch, os.path.join(d, "patch.diff"))
        for src, rel in demos:
            dst = os.path.join(d, "demo", rel)
            os.makedirs(os.path.dirname(dst), exist_ok=True)
            shutil.copy(src, dst)
        json.dump(meta, open(os.path.join(d, "meta.json"), "w"), indent=1)
        return 0 if ok else 3
    finally:
        sh(["git", "-C", "/repo", "worktree", "remove", "--force", wt])
        shutil.rmtree(wt, ignore_errors=True)
        sh(["git", "-C", "/repo", "worktree", "prune"])


if __name__ == "__main__":
    sys.exit(main())
