"""Registry of properties -> harness units for the vf driver.

Each unit: pkg (go package path relative to /repo), run (Test function), name,
checks/shards/timeout per tier, kind rapid|plain|fuzz.
"""

def T(q, t):
    return {"quick": q, "thorough": t}


PROPS = {}

PROPS["C04"] = {
    "technique": "property-based testing (rapid): generated key sets vs map model, round-trip + determinism + order-independence oracles",
    "level_text": "Generated-input search: thousands of generated key sets per run (explicit, adversarial single-bucket, boundary-size, unsupported) are built with the three real builders and every inserted key is looked up in the sealed file against the generating map; byte-identical rebuild and permuted-order rebuild are compared. Exploration level: finds violations, does not prove absence.",
    "level_note": "Trusted: sha-256 derivation of keys/values from drawn seeds, the scratch file system, rapid's PRNG. Mining failure on over-full buckets (>11000 keys) is accepted as an allowed error; absent-key behaviour is judged by C03, not here.",
    "rule": ("rapid-generated key sets (explicit keys 1..300 of 0..64 bytes + shape classes: adversarial single-bucket sets, "
             "keys of 255..65535 bytes, keys >= 65536 bytes, value sizes 1..255, declared count below/above real, duplicate key (same or another value; among many keys, among 1..3, or alone in its bucket under an over-declared count), "
             "a birthday-searched pair of distinct keys colliding in hash domain 0, 0..255 metadata pairs including the largest legal metadata (255 pairs of 254/255 + 253..255 bytes); bulk unit: +9999..60000 derived keys around the 10000-per-bucket boundary) for the three formats; "
             "oracle = the generating map: Seal==nil => every key looks up its value, two identical builds are byte-identical, permuted "
             "insertion order answers identically; unsupported input must give an error (no panic, no silent loss). "
             "non-trivial = >=3 keys or >=2 buckets; distinct = distinct generated case (hash of the case)"),
    "assumptions": ["sha-256 used to derive keys/values from drawn seeds", "os file system semantics of the scratch dir"],
    "units": [
        {"name": "sized", "pkg": "./compactindexsized", "run": "TestVfC04Sized", "checks": T(1500, 40000), "shards": T(4, 16), "timeout": T(600, 3000)},
        {"name": "sized-bulk", "pkg": "./compactindexsized", "run": "TestVfC04SizedBulk", "checks": T(8, 320), "shards": T(4, 16), "timeout": T(600, 3000)},
        {"name": "legacy8", "pkg": "./deprecated/compactindex", "run": "TestVfC04Legacy8", "checks": T(800, 20000), "shards": T(4, 16), "timeout": T(600, 3000), "env": {"VERIF_BULK": T(0, 1)}},
        {"name": "legacy36", "pkg": "./deprecated/compactindex36", "run": "TestVfC04Legacy36", "checks": T(800, 20000), "shards": T(4, 16), "timeout": T(600, 3000), "env": {"VERIF_BULK": T(0, 1)}},
    ],
}

PROPS["C05"] = {
    "technique": "property-based testing (rapid): generated signature multisets vs set-of-(prefix,hash) model, three reader kinds, two file formats",
    "level_text": "Generated-input search: signature multisets are generated per two-byte prefix with bucket populations 0,1,2,3,..,2^k-1,2^k,2^k+1, duplicates, edge prefixes, 1..1500 prefixes, one prefix filled to 15 999..32 001 entries (around the writer's 16 000-entry reservation) with populated neighbours, and three insertion orders; the sealed file is also read by 8 goroutines sharing one reader (mapped file, and a ReaderAt that yields after every read); after Seal every added signature must be present through mmap, os.File and in-memory readers, Writer.Has must agree with the sealed file, and a positive answer on a probe requires a (prefix,hash) of the model. Exploration level.",
    "level_note": "Trusted: sha-256 derivation of signatures from drawn seeds; the package's exported Hash() is used only for the 'present only if hash-equal' direction. Truncated/corrupt files are judged by C12/C13.",
    "rule": ("rapid draws a shape class, a seed, per-prefix bucket specs (prefix, population from {0..9,15..17,31..33,..,255..257,1000}, duplicates), insertion order and metadata size; "
             "signatures are derived from the seed; 200 absent probes per case, half forced into populated prefixes. non-trivial = some bucket with >=3 distinct hashes and >=1 duplicate; distinct by case hash"),
    "assumptions": ["sha-256 derivation of signatures", "xxhash via the package's exported Hash for the model"],
    "units": [
        {"name": "current", "pkg": "./bucketteer", "run": "TestVfC05", "checks": T(120, 640), "shards": T(4, 8), "timeout": T(600, 3000), "env": {"GOGC": "off"}},  # real 8 GiB-per-writer reservation: ~50 MB resident per case without collection, 80 cases per process
        {"name": "legacy", "pkg": "./deprecated/bucketteer", "run": "TestVfC05Legacy", "checks": T(300, 8000), "shards": T(3, 8), "timeout": T(600, 3000)},
    ],
}

ROOT_ENV = {"GOGC": "100"}  # package-main units: normal collector; the 8 GiB-per-writer reservation of bucketteer.NewWriter is shrunk by BUCKET_RESERVE (DESIGN.md 8.1)
# sig-exists writer: per-bucket capacity hint 16 000 -> 16 (65 536 buckets: 8 GiB -> 8 MiB of address space per writer).
# Only the capacity hint of make() changes; with it the root-package units can run with the normal collector.
BUCKET_RESERVE = [{"file": "bucketteer/write.go", "rules": [{"old": "16_000", "new": "16"}]}]


PROPS["C01"] = {
    "technique": "property-based testing (rapid): generated well-formed epoch CARs with ground-truth offset table; every object/slot/signature looked up through the real `index all` output and a loaded Epoch",
    "level_text": "Generated-input search over well-formed epoch CARs built by the shared generator (reference dag-cbor encoder, own CAR writer): createAllIndexes runs on each, then every object is fetched by CID through the index and through Epoch.GetNodeByCid and compared with the generator's offset/length/bytes, every slot and first signature is resolved, block times and sig-exists are checked. Classes forced: 1/2/3-byte section-length varints, four root-CID shapes including a CAR header longer than 127 bytes (two-byte length prefix; identity root CID), last block on the last slot of the epoch, local file vs HTTP ReaderAt, bulk epochs at the 10000-per-bucket boundaries. Exploration level.",
    "level_note": "Trusted: ipld-prime bindnode+dag-cbor encoder, solana-go marshalling, zstd, protobuf, sha-256 and the ~40-line CAR writer of lib/cargen. Disk faults during sealing are not injected.",
    "rule": ("rapid draws an epoch spec (epoch number, 1..12 blocks with slot gaps, 0..3 entries, 0..3 tx per entry, legacy/v0/vote tx, metadata 0..40 KB in 1..23 frames with fan-out 1..10, rewards, "
             "root CID hash kind = header length, data-frame variants); bulk unit appends 99..10001 uniform blocks. non-trivial = >=2 blocks, >=2 transactions and >=1 section with a 2- or 3-byte length varint; distinct by case hash"),
    "assumptions": ["reference encoder and cargen CAR writer are correct (a wrong generator shows as a false alarm on the unchanged tree, not as a silent pass)"],
    "units": [
        {"name": "index-all", "pkg": ".", "run": "TestVfC01", "checks": T(240, 40000), "shards": T(6, 16), "timeout": T(900, 3000), "transforms": BUCKET_RESERVE, "env": ROOT_ENV},
        {"name": "index-all-bulk", "pkg": ".", "run": "TestVfC01Bulk", "checks": T(2, 96), "shards": T(2, 12), "timeout": T(900, 3000), "transforms": BUCKET_RESERVE, "env": ROOT_ENV, "shrinktime": "5s", "tiers": ("quick", "thorough")},
    ],
}

PROPS["C18"] = {
    "technique": "small-scope exhaustive schedule enumeration (harness-owned gates) + rapid-sampled larger schedules; oracle = outcome vector",
    "level_text": "Every outcome vector in {success, error, not-found, error wrapping a context deadline/cancellation of the job's own I/O}^n, every concurrency limit and every completion order feasible for that limit is enumerated (n<=4 quick, n<=6 thorough) by gating each job on its own channel, plus rapid samples for n up to 9; the result must be a successful job's value when one exists, else the complete error list; the call must return and leave no goroutine behind. Unit epoch-search applies the same oracle to the caller, MultiEpoch.findEpochNumberFromSignature: 2..5 of five loaded epochs, search concurrency -1..16, each epoch's signature-existence index replaced by a gated stand-in answering present / absent / I/O error in a harness-owned completion order (the archiving epoch keeps its real sig-to-cid index); the search must name the archiving epoch whenever one exists, else fail (not-found exactly when every epoch answered absent). Exploration level with an exhaustive small scope.",
    "level_note": "The harness controls start/finish of every job but not the instant at which FirstSuccess reads a result, so two completions may be observed in swapped order; the oracle is order-independent, so this cannot cause a false alarm. Cancelled request contexts are outside the property.",
    "rule": ("enumeration: outcome vectors x limits {-1,1..n} x DFS over completion orders where at most `limit` started jobs are in flight; sampled unit: rapid draws n in 4..9, outcomes, limit and a feasible order. "
             "non-trivial = >=2 jobs with mixed outcomes where the first job to complete is not a success; distinct by (outcomes, limit, order)"),
    "assumptions": ["Go runtime scheduling of the released goroutines"],
    "units": [
        {"name": "exhaustive", "pkg": ".", "run": "TestVfC18Exhaustive", "kind": "plain", "checks": 0, "shards": T(4, 16), "timeout": T(600, 3000), "env": {"VERIF_C18_MAXN": T(4, 6)}},
        {"name": "sampled", "pkg": ".", "run": "TestVfC18Rapid", "checks": T(2000, 1000000), "shards": T(4, 16), "timeout": T(600, 3000)},
        {"name": "epoch-search", "pkg": ".", "run": "TestVfC18Epochs", "replay": "TestVfReplayC18Epochs", "checks": T(600, 400000), "shards": T(4, 16), "timeout": T(600, 3000), "transforms": BUCKET_RESERVE, "env": ROOT_ENV},
    ],
}

PROPS["C11"] = {
    "technique": "differential property-based testing (rapid): fast hand-written decoders vs schema-driven bindnode+dag-cbor decoder on reference-encoded generated nodes and all fixture nodes",
    "level_text": "Typed values of all seven kinds are generated field by field (optional fields absent/null/present, edge integers, lists of 0..5000 links, byte strings up to 64 KiB, several CID kinds), encoded with the reference encoder and decoded by both decoders; kind, scalars, byte strings, link sequences and every Has*/Get* accessor must agree, DecodeAny must return the generating kind and every other kind's decoder must reject the node. Exploration level.",
    "level_note": "Trusted: ipld-prime bindnode + dag-cbor as the reference (encoder and decoder). An empty `next` list and an absent/null one are treated as the same observation (HasNext false, no links).",
    "rule": ("rapid draws the kind and every field; non-trivial = node with >=1 optional field present and >=1 absent/null, or a list longer than 23 elements (2-byte CBOR length); fixtures unit: every section of the three fixture CARs; distinct by encoded bytes"),
    "assumptions": ["reference decoder is the specification of 'schema-conforming'"],
    "units": [
        {"name": "generated", "pkg": "./iplddecoders", "run": "TestVfC11", "checks": T(60000, 3000000), "shards": T(8, 16), "timeout": T(600, 3000)},
        {"name": "fixtures", "pkg": "./iplddecoders", "run": "TestVfC11Fixtures", "kind": "plain", "checks": 0, "shards": 1, "timeout": T(600, 3000)},
    ],
}

PROPS["C14"] = {
    "technique": "property-based testing with fault injection (rapid): generated payloads x frame layouts x single-frame faults, round-trip oracle on three reassembly paths",
    "level_text": "Payloads (0..20 KiB quick, 200 KiB thorough) are cut into 1..60 frames laid out as in the schema comment (fan-out 1..10) or as arbitrary trees with permuted next lists and permuted storage order, with CRC64/FNV/no checksum; one fault per faulty case (missing frame, dropped link, duplicated link, bit flip, frame of another payload, two frames swapped). Intact payloads must reassemble byte-identically through tooling.LoadDataFromDataFrames, getTransactionAndMetaFromNode, parseTransactionAndMetaFromNode (the JSON-RPC path, compared as parsed metadata) and accum.ObjectsToTransactionsAndMetadata; faulty ones must give an error or exactly the original bytes. Exploration level.",
    "level_note": "Domain: a payload without a recorded frame count is a single frame (as the code documents); faults are injected only into payloads carrying checksum and frame count (any frame, including the first and the only one). Trusted: reference encoder, zstd, protobuf.",
    "rule": ("rapid draws payload seed/size, frame count, layout (schema fan-out or random tree), child order, checksum kind, fault kind and target frames; non-trivial = >=3 frames and >=2 levels of next links; distinct by case hash"),
    "assumptions": ["CRC64/FNV collisions on the injected faults are negligible (2^-64)"],
    "units": [
        {"name": "frames", "pkg": ".", "run": "TestVfC14", "checks": T(12000, 3000000), "shards": T(8, 16), "timeout": T(600, 3000)},
    ],
}

PROPS["C16"] = {
    "technique": "small-scope exhaustive enumeration (piece-size vectors x offsets x lengths) + rapid-generated piece layouts vs concatenation model; real split-car CLI on generated epoch CARs vs generator ground truth",
    "level_text": "Reader side: every vector of <=4 pieces of 0..6 bytes with every (offset,length) is enumerated against the concatenated byte string (two reader wirings), plus random vectors up to 64 pieces of 0..4096 bytes through MultiReaderAt and NewSplitCarReader (memory and file pieces, header padding, trailing bytes). Writer side: the real split-car action runs in-process on generated epoch CARs at target sizes forcing 1..N pieces; every block DAG must sit byte-identical and in order in exactly one piece, the YAML sizes must describe the files, and reading through SplitCarReader must reproduce original header + data region. Exploration level with an exhaustive small scope.",
    "level_note": "The per-piece Subset (and final Epoch) node is appended after the counted content by design; the check requires the trailing bytes to parse as exactly those nodes rather than demanding file size == header+content. metadata.csv is not judged (the property's observation point is the YAML metadata).",
    "rule": ("exhaustive unit: all size vectors (<=4 pieces, 0..6 bytes) x offset<=total+2 x length<=total+2; non-trivial = read spanning >=2 pieces or a vector with a zero-length piece. random unit: rapid draws pieces, paddings, trailing bytes, header length and 1..40 reads. split unit: rapid draws an epoch spec and a target size; non-trivial = >=2 pieces"),
    "assumptions": ["bytes.Reader / io.SectionReader / os.File ReadAt semantics"],
    "units": [
        {"name": "multireader-exhaustive", "pkg": "./split-car-fetcher", "run": "TestVfC16Exhaustive", "kind": "plain", "checks": 0, "shards": T(4, 16), "timeout": T(600, 3000), "env": {"VERIF_C16_PIECES": T(4, 5)}},
        {"name": "split-car", "pkg": ".", "run": "TestVfC16Split", "replay": "TestVfReplayC16Split", "checks": T(150, 20000), "shards": T(6, 16), "timeout": T(600, 3000)},
        {"name": "readers-random", "pkg": "./split-car-fetcher", "run": "TestVfC16Random", "checks": T(3000, 1000000), "shards": T(4, 16), "timeout": T(600, 3000)},
    ],
}

PROPS["C17"] = {
    "technique": "model-based property testing (rapid operation sequences + exhaustive short histories) of the range cache against the file bytes, with injected fetch failures; concurrent replay; end-to-end loopback HTTP reader",
    "level_text": "Histories of GetRange/SetRange/expiry over files of 8..4096 bytes (valid, nested, overlapping, adjacent, zero-length, out-of-range and negative ranges) are generated with fetch failures injected at chosen reads (optionally scribbling into the buffer first; failing as (0, error), (n/2, io.EOF) - a truncated remote -, (0, io.EOF), (n/2, io.ErrUnexpectedEOF) or (0, deadline exceeded)); every successful read must equal the file bytes, a read fails only when invalid or when its own fetch failed, and after a failed fetch the same read returns the true bytes. All histories of length <=2 (quick) / <=3 (thorough) over a 6-byte file are enumerated. 4-16 goroutines replay generated read lists with poisoned ranges and concurrent expiry, or all hammer the same three ranges (concurrent cache hits); a fatal runtime error of the process is attributed to the recorded case. The HTTP reader is driven against a loopback server that answers 500 / 500 with a long body / ignores Range on command. Exploration level.",
    "level_note": "The remote is the harness's own fetcher/server; it serves every in-range request unless a failure is injected. Goroutine schedules are perturbed, not enumerated. OccupiedSpace accounting is not part of the property and not judged.",
    "rule": ("rapid draws file size and 1..60 operations with range classes; non-trivial = history with a read served from a cached superset, a SetRange replacing cached subsets, or an injected failure; exhaustive unit enumerates all histories up to the stated length; distinct by case hash"),
    "assumptions": ["time.Since(entry) > -1h is always true (used to force expiry)"],
    "units": [
        {"name": "histories", "pkg": "./range-cache", "run": "TestVfC17", "checks": T(20000, 5000000), "shards": T(4, 16), "timeout": T(600, 3000)},
        {"name": "exhaustive", "pkg": "./range-cache", "run": "TestVfC17Exhaustive", "kind": "plain", "checks": 0, "shards": T(4, 16), "timeout": T(600, 3000), "env": {"VERIF_C17_LEN": T(2, 3)}},
        {"name": "concurrent", "pkg": "./range-cache", "run": "TestVfC17Concurrent", "replay": "TestVfReplayC17Concurrent", "checks": T(300, 60000), "shards": T(2, 8), "timeout": T(600, 3000), "crash_is_violation": True},
        {"name": "http", "pkg": "./split-car-fetcher", "run": "TestVfC17HTTP", "replay": "TestVfReplayC17HTTP", "checks": T(150, 20000), "shards": T(3, 12), "timeout": T(600, 3000)},
    ],
}

GSFA_SHRINK = [{"file": "gsfa/gsfa-write.go", "rules": [
    {"old": "1000", "new": "4", "within": "itemsPerBatch"},
    {"old": "256", "new": "3"},
    {"old": "100_000", "new": "5"},
    {"old": "slot%500", "new": "slot%5"},
    {"old": "1 * time.Second", "new": "5 * time.Millisecond"},
    # popularity rank keeps only the keys with the single highest flush count, so that the periodic
    # partial flush can also pick addresses that still have a full batch parked in the background writer
    {"old": "10_000", "new": "1"},
    # "fewer than 100 pending entries" threshold of the periodic partial flush, scaled like the batch size (1000 -> 4)
    {"old": "100", "new": "2"},
]}]

PROPS["C06"] = {
    "technique": "model-based property testing (rapid push histories vs per-address list model) at the real thresholds and on a build with AST-shrunk thresholds; directed search for record lengths on the varint-width boundaries",
    "level_text": "Push histories (interleaved addresses, shared transactions, per-address counts 1,2,999..1001,1999..2001,2500,3000, the all-zero address, generated yields/sleeps between pushes; thorough: >100000 distinct addresses with a push at a slot divisible by 500) are applied to the real writer and to a per-address list; after Close every address must read back exactly its entries newest first, limits must cut prefixes. The same generator runs densely against a build whose batch size / parked-buffer count / periodic-flush thresholds / poll interval are shrunk by an AST rewrite of gsfa-write.go. LinkedLog.Put/ReadWithSize is driven directly with records whose total length is searched to hit 126..131 and 16382..16388. Exploration level.",
    "level_note": "Goroutine timing of the background flusher is perturbed (generated Gosched/sleeps, shrunk poll interval), not enumerated. The shrunk build differs from the repository only in the seven literals listed in the evidence (transforms_applied; batch size 1000 -> 4, parking slots 256 -> 3, distinct-address threshold 100 000 -> 5, slot modulus 500 -> 5, poll interval, popularity rank 10 000 -> 1, partial-flush threshold 100 -> 2); if a literal is no longer found the unit runs with the real value.",
    "rule": ("real unit: rapid draws 1..8 addresses, a count per address from the boundary list, chunked interleaving, flags and yields; shrunk unit: 1..40 pushes x 1..3 of <=10 addresses x repeat 1..9; linked-log unit: 1..6 chained records, two thirds with a directed target length. "
             "non-trivial = an address with more entries than one batch or a triggered periodic flush (writer units), a record on a varint boundary (record unit); distinct by case hash"),
    "assumptions": ["zstd compression used to size records in the directed search is deterministic"],
    "units": [
        {"name": "linkedlog-records", "pkg": "./gsfa/linkedlog", "run": "TestVfC06LinkedLog", "replay": "TestVfReplayC06LinkedLog", "checks": T(400, 20000), "shards": T(4, 16), "timeout": T(600, 3000)},
        {"name": "shrunk-constants", "pkg": "./gsfa", "run": "TestVfC06Shrunk", "checks": T(800, 60000), "shards": T(8, 16), "timeout": T(900, 3000), "transforms": GSFA_SHRINK},
        {"name": "real-constants", "pkg": "./gsfa", "run": "TestVfC06Real", "checks": T(32, 640), "shards": T(16, 16), "timeout": T(900, 3000)},
    ],
}

GSFA_FASTPOLL = [{"file": "gsfa/gsfa-write.go", "rules": [{"old": "1 * time.Second", "new": "5 * time.Millisecond"}]}]

PROPS["C07"] = {
    "technique": "small-scope exhaustive enumeration of per-epoch histories x (limit,before,until) x slot windows against a list-slicing model; rapid-generated larger histories; handler-level JSON-RPC on generated epochs, each request repeated",
    "level_text": "Reader level: address indexes for 1..3 epochs x 0..4 entries (plus a noise address) are written with the real writer; every limit in 1..N+1 and every before/until drawn from {none} u history is evaluated through GsfaReaderMultiepoch.GetBeforeUntil and compared with the contiguous slice of the newest-first history; every slot window over the history slots +-1 and the epoch edges is evaluated through GetBeforeUntilSlot; per epoch the entries lie in the middle of the epoch, start on its first slot, or end on its last slot. Handler level: generated epochs with real `index gsfa` output are loaded in every subset and getSignaturesForAddress is called with generated limit/before/until, each request 8 times, comparing the JSON array (signature, slot, blockTime, err) in order. Exploration level with an exhaustive small scope.",
    "level_note": "before/until signatures are drawn from the address's own history (an unknown `before` yields an empty result in the implementation; the property does not specify it and it is not judged). The reader-level units use a build whose only change is the writer's poll interval (1 s -> 5 ms) so that thousands of small indexes can be written.",
    "rule": ("exhaustive unit: epoch sets {5},{5,6},{4,6},{3,4,5},{0,1,7} x 0..4 entries per epoch; non-trivial = history spanning >=2 epochs and an expected slice that is a strict non-empty sub-range; distinct by (history, limit, before, until) / (history, window)"),
    "assumptions": ["the real gsfa writer is correct for < 1000 entries per address (judged by C06)"],
    "units": [
        {"name": "reader-exhaustive", "pkg": "./gsfa", "run": "TestVfC07Exhaustive", "kind": "plain", "checks": 0, "shards": T(8, 16), "timeout": T(900, 3000), "transforms": GSFA_FASTPOLL, "env": {"VERIF_C07_STRIDE": T(3, 1)}},
        {"name": "handler", "pkg": ".", "run": "TestVfC07Handler", "replay": "TestVfReplayC07Handler", "checks": T(96, 8000), "shards": T(6, 16), "timeout": T(900, 3000), "transforms": GSFA_FASTPOLL + BUCKET_RESERVE, "env": ROOT_ENV},
        {"name": "reader-random", "pkg": "./gsfa", "run": "TestVfC07Random", "checks": T(40, 8000), "shards": T(4, 16), "timeout": T(900, 3000), "transforms": GSFA_FASTPOLL},
    ],
}

PROPS["C15"] = {
    "technique": "property-based testing (rapid): generated CAR layouts x ignore-sets x callback delays x GOMAXPROCS, callback sequence compared with the generator's offset table",
    "level_text": "Generated epoch CARs (blocks with 0..N children, Subset nodes in the middle of the file, trailing Subset/Epoch objects, multi-frame payloads; blocks with 5000 / 5001 / 5200 children - around the accumulator's initial per-group capacity - followed by further groups, with a slow consumer) are traversed with accum.NewObjectAccumulator(...).Run using every ignore-set class (none, the address indexer's, the splitter's, random), generated callback delays (none/Gosched/50us/500us), GOMAXPROCS 1/2/16 and a fast or slow reader. The callback sequence must be one group per block in file order with exactly the non-ignored objects since the previous block, each with its true CID, offset, section length and bytes, plus one final group for trailing objects; callbacks must not overlap, data handed to a callback must stay intact until it returns, and Run returns only after all callbacks ended. Exploration level.",
    "level_note": "Goroutine schedules are perturbed (delays, GOMAXPROCS), not enumerated. Ground truth comes from the cargen CAR writer.",
    "rule": ("rapid draws an epoch spec, ignore-set, delay pattern, GOMAXPROCS and reader speed; non-trivial = >=2 groups and (non-empty ignore set or a delayed callback); distinct by case hash"),
    "assumptions": ["cargen offsets are correct (cross-checked by C01 against the real indexer)"],
    "units": [
        {"name": "traversal", "pkg": "./accum", "run": "TestVfC15", "checks": T(1500, 120000), "shards": T(6, 16), "timeout": T(900, 3000)},
    ],
}

PROPS["C02"] = {
    "technique": "property-based testing (rapid): generated epochs loaded in-process, every archived slot and signature queried over JSON-RPC (4 encodings) and gRPC (unary + Get stream) and compared with the generator's ground truth",
    "level_text": "1..6 generated epochs (including epoch 0 with the mainnet genesis archive; up to 6 so that the epoch count exceeds twice the search concurrency) are indexed with the real `index all`, loaded with NewEpochFromConfig into a MultiEpoch with search concurrency -1/0/1/2/NumCPU, and every block and every transaction is fetched through newMultiEpochHandler (getBlock, getTransaction, getBlockTime; encodings base58, base64, base64+zstd, json, default) and through the gRPC methods GetBlock, GetTransaction, GetBlockTime and the bidirectional Get stream. Slot, parent slot, block time, block height, blockhash, previous blockhash, transaction order, transaction bytes (decoded from the requested encoding), metadata fields / raw metadata bytes and rewards are compared with what the generator wrote. Every request runs under a hang detector: a request whose goroutine is parked on a channel / lock after 90 s is a violation (reported with its stack), one that is still running ends the run inconclusive. Exploration level.",
    "level_note": "Blocks of this property have >= 1 entry; epochs without recorded transaction positions are compared as sets; slot 0 of epoch 0 (genesis special case) is compared on slot/transactions/blockhash only; jsonParsed needs the Rust FFI and is not covered. The harness closes its epochs only after the straggling epoch searches of the last getTransaction have ended (closing under them is the open C09 finding epoch-closed-under-inflight-read, not judged here). Trusted: solana-go, protobuf, zstd, reference IPLD encoder.",
    "rule": ("rapid draws 1..3 or 3..6 epoch specs (distinct epoch numbers; required class epochs>2*concurrency), concurrency and an encoding rotation; every block and transaction of every loaded epoch is queried. non-trivial = >=2 epochs loaded and (a block with >=2 transactions over >=2 entries or a transaction with multi-frame metadata); distinct by case hash"),
    "assumptions": ["the handler is called in-process through fasthttp.RequestCtx.Init (no network stack)"],
    "units": [
        {"name": "rpc", "pkg": ".", "run": "TestVfC02", "checks": T(96, 24000), "shards": T(8, 16), "timeout": T(900, 3000), "transforms": BUCKET_RESERVE, "env": ROOT_ENV},
    ],
}

PROPS["C03"] = {
    "technique": "property-based testing with directed collision search (rapid): absent keys whose 24-bit in-bucket hash equals that of a stored key are found with the index's own exported hash functions and queried through JSON-RPC/gRPC/Epoch",
    "level_text": "Generated epochs with 150..600 extra blocks are indexed (including the address index) and loaded alone or together. For every epoch: every skipped slot around the archived blocks, every absent slot of the epoch whose in-bucket hash collides with a stored slot (up to 12), absent signatures / CIDs / addresses searched until they collide with a stored key, a plainly absent signature and address, and slots/signatures of an epoch that is built but not loaded; every colliding absent CID is also fetched by four goroutines while four others fetch the stored object it collides with (300 rounds); after getBlock has served a block, the raw-codec twin (same multihash, other codec) of each of its objects is fetched and must be unknown. The answer must be not-found / epoch-not-available / null / empty - never a block of another slot, a transaction with another first signature, bytes of another CID or signatures of transactions that do not mention the address. Exploration level.",
    "level_note": "The index's exported DB.GetBucket / Bucket.Load / BucketHeader.Hash are used to find colliding keys (search aid, not oracle). Open finding (see known_findings.json): colliding absent addresses in the key-less pubkey index - excluded by construction and reported as KNOWN-FINDING.",
    "rule": ("rapid draws 1..3 epoch specs (+150..600 bulk blocks each), a probe seed and an unloaded epoch; non-trivial = at least one absent key that collides with a stored key in the real index was queried; distinct by case hash; the per-class numbers of colliding keys are in class_counts (n-colliding-*)"),
    "assumptions": ["sha-256/xxhash behave as random functions for the collision search"],
    "units": [
        {"name": "absent-keys", "pkg": ".", "run": "TestVfC03", "replay": "TestVfReplayC03", "checks": T(48, 4800), "shards": T(8, 16), "timeout": T(900, 3000), "transforms": GSFA_FASTPOLL + BUCKET_RESERVE, "env": ROOT_ENV},
    ],
}

PROPS["C10"] = {
    "technique": "property-based fault injection over configurations (rapid): generated archives A, B (other epoch), A' (same epoch, other root); every single and pairwise substitution of index files and cross-role swaps, load result compared with an identity-field oracle",
    "level_text": "Three generated archives are indexed (all five `index all` files + the address index). The configuration of A is loaded with every index role taken from B or A' (singly and in all pairs), with every index file placed in every other role, with all indexes of A' over A's CAR, with A's own files in which one identity field (epoch / root) was replaced, with B's files whose epoch field was forged to the configured epoch, and with A's gsfa directory whose offsets index is A's cid-to-offset-and-size file (another kind, same value layout). NewEpochFromConfig must fail exactly when a substituted file has the wrong kind/format, records another epoch than the configuration, or the root-bearing indexes do not all record the same root; it must succeed otherwise, and epoch/root/kind written at build time must be read back. With a foreign CAR under self-consistent indexes (A' and A swapped, and a CAR with exactly A's section layout but altered objects stored under their new CIDs) every CID-addressed fetch, repeated three times, must fail or return bytes whose hash matches the CID. Exploration level.",
    "level_note": "slot-to-blocktime carries only the epoch, so a block-time file of A' is undetectable by design and is expected to load. The Filecoin/lassie mode needs the network and is not covered. Inside the gsfa directory only the offsets index is swapped (for the cid-to-offset-and-size file); the linked log and the manifest are covered by C12/C13.",
    "rule": ("rapid draws three epoch specs; per case ~140 configurations are derived deterministically (6 roles x {B, A'} singles, 20 cross-role swaps, 60 pairs, all-A'); non-trivial = case in which at least one configuration must be rejected; distinct by case hash; class_counts reports configurations-tried and foreign-car-cid-fetches"),
    "assumptions": ["identity oracle derived from the property statement (kind, epoch, root)"],
    "units": [
        {"name": "identity", "pkg": ".", "run": "TestVfC10", "checks": T(32, 4800), "shards": T(8, 16), "timeout": T(900, 3000), "shrinktime": "10s", "transforms": GSFA_FASTPOLL + BUCKET_RESERVE, "env": ROOT_ENV},
    ],
}

PROPS["C13"] = {
    "technique": "fault injection by truncation + metamorphic property testing (rapid): every file kind built by the real writers from a generated epoch is cut at every offset (small files) or at structure boundaries +-2 plus random offsets; lookups on the truncated copy are compared with the complete file",
    "level_text": "For each generated epoch the real `index all` and `index gsfa` outputs are truncated: the four compact-index kinds, sig-exists (current and legacy format), slot-to-blocktime, the gsfa linked log / manifest / pubkey index, and the CAR. Some epochs carry their last block on the last slot of the epoch (its values are then the final bytes of the per-slot files). Readers are opened over the truncated bytes (in-memory ReaderAt, or files for the gsfa directory and the epoch level) and every stored key (<=200 per file) is looked up: the answer must equal the complete file's answer or be an error that is not `not found` (no `false`, no empty list, no other value); a gsfa directory that still opens must report the version and metadata of the complete one. The same is checked through a loaded Epoch / the JSON-RPC handler with one truncated file. A recording ReaderAt determines for each (cut, key) whether the cut lies before the bytes the complete lookup reads. Exploration level; evidence counts individual lookups.",
    "level_note": "A crash (panic) on a truncated file is loud and is counted separately (class n:*-panic); crashes are judged by C12, silent wrong answers here. evaluations = generated epochs + individual (file, cut, key) lookups; distinct_nontrivial counts generated epochs with at least one affected lookup, the number of affected lookups is class n:nontrivial.",
    "rule": ("rapid draws an epoch spec and a cut seed; cuts: every offset for files <=4 KiB, else header/table/bucket boundaries +-2 and 60..200 random offsets; keys: every stored key up to 200 per file. non-trivial lookup = the cut lies before the highest byte the complete-file lookup of that key reads"),
    "assumptions": ["reads of a truncated file behave like reads of bytes.Reader / os.File at EOF (short read + io.EOF)"],
    "units": [
        {"name": "truncation", "pkg": ".", "run": "TestVfC13", "checks": T(16, 1600), "shards": T(8, 16), "timeout": T(900, 3000), "shrinktime": "20s", "transforms": GSFA_FASTPOLL + BUCKET_RESERVE, "env": ROOT_ENV},
    ],
}

PROPS["C08"] = {
    "technique": "grammar-based property testing (rapid) of JSON-RPC bodies / HTTP paths and of gRPC message shapes against in-process servers with 0, 1 and 3 loaded epochs; thorough: Go native coverage-guided fuzzing of the HTTP body",
    "level_text": "Requests are generated from a grammar: the 8 JSON-RPC methods with params missing / null / object / wrong arity / wrong types / huge, negative and fractional numbers / malformed base58 / unknown options / an existing key with each documented option member null, ill-typed or at a boundary, batch arrays, truncated and non-JSON bodies, oversized bodies, GET/PUT/DELETE, /health, /metrics, /api/v1/slot-to-cid/<x>, /api/v1/sig-to-cid/<x>; gRPC GetBlock/GetTransaction/GetBlockTime/GetVersion/StreamBlocks/StreamTransactions messages with absent optional fields, malformed account strings, signatures of wrong length, ranges across and outside epochs, start > end, and sequences on the bidirectional Get stream. Each request runs against servers built once per process (no epochs, one epoch, three epochs with address indexes); a panic, a missing response or a failing follow-up probe request is a violation. A crash in a goroutine spawned by a handler kills the process: the driver attributes it to the request recorded before the call. Exploration level.",
    "level_note": "Slot ranges are kept below ~433000 slots (a request with an end slot near 2^64 keeps StreamBlocks scanning until the client cancels; that is not a crash and is not judged). Crashes that need a corrupted archive belong to C12. The proxy path is exercised only with no proxy configured.",
    "rule": ("rapid draws protocol, server (0/1/3 epochs), shape class and values from pools of real slots/signatures/addresses plus hostile constants; non-trivial = request other than a plain valid call (ill-typed/missing argument, hostile path, gRPC message); distinct by request hash"),
    "assumptions": ["handlers are invoked in-process (fasthttp.RequestCtx.Init, fake grpc.ServerStream); the network stack and the generated gRPC glue are not exercised"],
    "units": [
        {"name": "requests", "pkg": ".", "run": "TestVfC08", "checks": T(20000, 1000000), "shards": T(8, 16), "timeout": T(900, 3000), "transforms": GSFA_FASTPOLL + BUCKET_RESERVE, "env": ROOT_ENV, "crash_is_violation": True, "shrinktime": "20s"},
        {"name": "fuzz", "pkg": ".", "run": "FuzzVfC08Body", "kind": "fuzz", "tiers": ("thorough",), "fuzztime": T("30s", "300s"), "workers": 16, "shards": 1, "checks": 0, "timeout": T(600, 1800), "transforms": GSFA_FASTPOLL + BUCKET_RESERVE, "env": {"GOGC": "100"}},
    ],
}

PROPS["C19"] = {
    "technique": "differential property testing (rapid): generated epochs x slot ranges x filters, gRPC stream output compared with a naive scan of the generator's ground truth, with and without the address index",
    "level_text": "1..3 generated epochs (adjacent or with gaps, skipped slots, vote / non-vote including transactions of 2..4 instructions with the Vote program at any position, failed / successful, legacy / v0 with address-table loaded accounts, accounts never mentioned in some epochs, blocks near epoch edges) are loaded once without and once with address indexes. StreamBlocks and StreamTransactions are called in-process with generated ranges (inside an epoch, starting or ending on skipped slots, from the last blocks of an epoch to just after the first block of the next, across a missing epoch, end omitted) and filters over a 6-account universe plus an unmentioned account (vote/failed absent/true/false, include/exclude/required subsets, no filter). The streamed sequence must equal the reference scan: every archived block of the range in ascending slot order (restricted by account_include), every archived transaction satisfying the filter in ascending slot and position order with byte-identical payloads, and the same set of transactions with and without the address index. Exploration level.",
    "level_note": "Reference definition of a vote transaction (quoted in vote.go from the upstream checker): 1-2 signatures, legacy message, exactly one instruction, which invokes the Vote program. All generated transactions carry metadata (the failed flag is undefined otherwise); fewer than 100 transactions per account and range (the indexed path asks the address index for 100 entries per account). Epochs without recorded positions are compared per slot as sets. Messages carrying no transaction (placeholder when nothing matched) are ignored.",
    "rule": ("rapid draws 1..3 epoch specs and 4..14 queries; non-trivial = StreamTransactions query whose range contains >=1 skipped slot and >=2 blocks and whose filter both accepts and rejects a transaction of the range; distinct by case hash"),
    "assumptions": ["reference predicate: a transaction mentions an account if it is among its static keys or its loaded addresses"],
    "units": [
        {"name": "streams", "pkg": ".", "run": "TestVfC19", "checks": T(128, 14400), "shards": T(8, 16), "timeout": T(900, 3000), "transforms": GSFA_FASTPOLL + BUCKET_RESERVE, "env": ROOT_ENV, "shrinktime": "20s"},
    ],
}

C09_MONITOR = [
    {"file": "multiepoch.go", "rules": [{"old": "sync.RWMutex", "new": "vfRWMutex", "within": "UnimplementedOldFaithfulServer"}], "append": "var _ sync.Mutex"},
    {"file": "zz_vf_rwmutex.go", "add_file": "checks_extra/vf_rwmutex.go.src"},
] + GSFA_FASTPOLL

PROPS["C09"] = {
    "technique": "generated concurrent programs (rapid) run as stress schedules with progress/consistency oracles + dynamic lock-order monitoring of single-threaded generated operation lists on a build with an instrumented epoch-set mutex",
    "level_text": "Stress: rapid generates programs of 2..12 reader goroutines (getSlot, getFirstAvailableBlock, getBlock, getBlockTime, getTransaction, getSignaturesForAddress, getVersion, epoch listing, gRPC GetBlock) and 1..3 writer goroutines (AddEpoch/RemoveEpoch/ReplaceEpoch on volatile epochs with shared Epoch objects; or ReplaceOrAddEpoch/RemoveEpochByConfigFilepath with freshly loaded epochs) at GOMAXPROCS 2/4/16, with two stable epochs loaded or with a single one (volatile epochs toggled 200 times per writer operation around it, readers repeating their queries 10..100 times, so that the epoch count passes through 1 while queries run); every goroutine must finish (a 12 s stall with goroutines parked in sync.RWMutex is reported as deadlock with their stacks), every epoch list must be duplicate-free, newest first, a superset of the stable epochs, and every query addressed to a stable epoch must equal the idle server's answer. Monitor: the same operations run single-threaded against a build in which MultiEpoch.mu is replaced (AST rewrite) by an instrumented RW mutex that reports a read acquisition by a goroutine already holding the read lock, or a write acquisition under a read lock - the acquisition orders that sync.RWMutex documents as deadlock-prone - independent of the schedule. Exploration level.",
    "level_note": "Schedules are sampled, not enumerated; the monitor covers the lock acquisitions executed by the generated operations (counted in class lock-acquisitions-observed), not unexecuted call-graph paths. In class B (old epoch closed on replace) readers only issue slot-routed queries to stable epochs and epoch listings: queries that consult an epoch while it is being closed fault the process (open finding epoch-closed-under-inflight-read, probed in a child process by shard 0 of the stress unit and reported as KNOWN-FINDING while it reproduces).",
    "rule": ("stress: rapid draws readers x ops, writers x ops, GOMAXPROCS, class A/B; non-trivial = >=2 readers, >=1 writer and an epoch-listing operation that overlapped a running writer (measured); monitor: 1..40 ops per list, non-trivial = >=2 ops; distinct by case hash"),
    "assumptions": ["a 12 s stall with goroutines parked in RWMutex.RLock/Lock is a deadlock (each operation takes milliseconds)"],
    "units": [
        {"name": "lock-monitor", "pkg": ".", "run": "TestVfC09Monitor", "checks": T(400, 100000), "shards": T(4, 16), "timeout": T(900, 3000), "transforms": C09_MONITOR + BUCKET_RESERVE, "env": ROOT_ENV},
        {"name": "stress", "pkg": ".", "run": "TestVfC09Stress", "checks": T(100, 12000), "shards": T(4, 8), "timeout": T(900, 3000), "transforms": GSFA_FASTPOLL + BUCKET_RESERVE, "env": ROOT_ENV, "shrinktime": "20s", "crash_is_violation": True},
    ],
}

PROPS["C12"] = {
    "technique": "structure-aware mutation property testing (rapid) of valid files produced by the real writers, with panic / time / allocation watchdogs; thorough: Go native coverage-guided fuzzing per parser seeded with the valid files",
    "level_text": "24 parser entry points (the eight IPLD node decoders, multi-frame loading with self links, the CAR reader, CAR sections, the three compact-index readers, the typed index openers, index metadata, sig-exists current and legacy, slot-to-blocktime, linked log, gsfa directory, manifest, transaction-status metadata, first-signature) are driven with mutations of valid inputs built by the real writers: length/count/offset fields overwritten with 0, 1, 12, max and values inconsistent with the file size (1..8 bytes, both byte orders), integers at known header fields or aligned positions moved by +-1, +-2, x2, /2 (`nudge`), the key/value metadata of compact indexes re-encoded with one pair changed (`meta`), the decompressed payload of a linked-log record altered (hostile / overlong varints) and recompressed under a correct length prefix (`ll-payload`), CBOR item heads replaced by other kinds (list/map/int/bytes/tag/indefinite), truncation, bit flips, appended bytes, tiny and random inputs. Loaded indexes are queried as the server would (block-time index over its whole epoch, linked-log reads at and beyond the end of the file with the largest 3-byte size). A panic, a call that does not return within 20 s, or more than 64 MiB + 256 x len(input) allocated during the call is a violation; returned errors are fine. The largest allocation seen per target is reported in the evidence (max_alloc_above_256x_input_KiB). Exploration level.",
    "level_note": "Allocation is measured with runtime.MemStats.TotalAlloc deltas around the call in an otherwise idle process. 'Never' is bounded by the case budget; the thorough tier adds native fuzzing.",
    "rule": ("rapid draws target, seed file, mutation kind and positions/values; non-trivial = mutated input that passes the first validation stage of its parser (reported per target as deep:<target>); distinct by input hash"),
    "assumptions": ["valid seeds come from one generated epoch built at process start"],
    "units": [
        {"name": "mutation", "pkg": ".", "run": "TestVfC12", "checks": T(64000, 4000000), "shards": T(8, 16), "timeout": T(900, 3000), "transforms": GSFA_FASTPOLL + BUCKET_RESERVE, "env": {"GOGC": "100"}, "shrinktime": "15s"},
        {"name": "fuzz", "pkg": ".", "run": "FuzzVfC12", "kind": "fuzz", "tiers": ("thorough",), "fuzztime": T("30s", "300s"), "workers": 16, "shards": 1, "checks": 0, "timeout": T(600, 1800), "transforms": GSFA_FASTPOLL + BUCKET_RESERVE, "env": {"GOGC": "100"}},
    ],
}


# build variants are part of what a check assumes: say so in the evidence of every property that uses one
for _p in PROPS.values():
    if any(any(t.get("file") == "bucketteer/write.go" for t in (u.get("transforms") or [])) for u in _p["units"]):
        _p["assumptions"] = list(_p.get("assumptions", [])) + ["package-main units run against a build whose only difference is the capacity hint of the sig-exists writer's 65 536 buckets (make(..., 0, 16_000) -> 16; AST rewrite at check time, /repo untouched): capacity only, no behaviour"]

# properties not (yet) claimed by a check; kept current by hand
NOT_APPLICABLE = [
    {"property_id": pid, "reason": "check not built yet in this round (planned in DESIGN.md section 4); no claim is made"}
    for pid in ["C%02d" % i for i in range(1, 20)] if pid not in PROPS
]
