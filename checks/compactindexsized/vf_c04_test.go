package compactindexsized

// C04 (compactindexsized): every inserted key is found with its value; same
// inserts => byte-identical file; insertion order does not change answers;
// unsupported input => error (never panic, never a sealed index with a wrong
// lookup). Oracle = the Go map the case was generated from.

import (
	"bytes"
	"context"
	"crypto/sha256"
	"encoding/binary"
	"fmt"
	"os"
	"path/filepath"
	"testing"

	"github.com/rpcpool/yellowstone-faithful/zz_verif/vfh"
	"pgregory.net/rapid"
)

type vfC04KV struct {
	K []byte
	V []byte
}

type vfC04Case struct {
	ValueSize int
	Declared  int      // numItems passed to NewBuilderSized
	Keys      [][]byte // explicit keys (distinct unless DupOf >= 0)
	BulkN     int      // additional derived keys: sha256(BulkSeed,i)[:BulkLen]
	BulkSeed  uint64
	BulkLen   int
	ValSeed   uint64    // value_i = stretch(sha256(ValSeed,i))
	DupOf     int       // >=0: key index duplicated at the end (unsupported)
	DupDiff   bool      // the duplicate carries another value than the first insert (then a sealed index has lost one of the two)
	PermSeed  uint64    // second insertion order
	Meta      []vfC04KV // metadata pairs (besides none)
	Shape     string
	Collide   bool // Keys ends with two keys of one bucket that collide in hash domain 0
}

func vfC04derive(seed uint64, i int, n int) []byte {
	out := make([]byte, 0, n+32)
	var ctr uint32
	for len(out) < n {
		var b [20]byte
		binary.LittleEndian.PutUint64(b[:8], seed)
		binary.LittleEndian.PutUint64(b[8:16], uint64(i))
		binary.LittleEndian.PutUint32(b[16:], ctr)
		h := sha256.Sum256(b[:])
		out = append(out, h[:]...)
		ctr++
	}
	return out[:n]
}

func (c *vfC04Case) allKeys() [][]byte {
	keys := make([][]byte, 0, len(c.Keys)+c.BulkN)
	keys = append(keys, c.Keys...)
	for i := 0; i < c.BulkN; i++ {
		keys = append(keys, vfC04derive(c.BulkSeed, i, c.BulkLen))
	}
	return keys
}

func vfC04perm(n int, seed uint64) []int {
	p := make([]int, n)
	for i := range p {
		p[i] = i
	}
	// Fisher-Yates driven by a splitmix sequence (pure function of the drawn seed)
	x := seed
	next := func() uint64 {
		x += 0x9e3779b97f4a7c15
		z := x
		z = (z ^ (z >> 30)) * 0xbf58476d1ce4e5b9
		z = (z ^ (z >> 27)) * 0x94d049bb133111eb
		return z ^ (z >> 31)
	}
	for i := n - 1; i > 0; i-- {
		j := int(next() % uint64(i+1))
		p[i], p[j] = p[j], p[i]
	}
	return p
}

// vfC04build builds and seals one index; returns file bytes.
func vfC04build(dir string, c *vfC04Case, keys [][]byte, order []int, tag string) (raw []byte, err error) {
	tmp := filepath.Join(dir, "tmp-"+tag)
	if err := os.MkdirAll(tmp, 0o755); err != nil {
		return nil, err
	}
	b, err := NewBuilderSized(tmp, uint(c.Declared), uint(c.ValueSize))
	if err != nil {
		return nil, fmt.Errorf("NewBuilderSized: %w", err)
	}
	defer b.Close()
	for _, kv := range c.Meta {
		if err := b.Metadata().Add(kv.K, kv.V); err != nil {
			return nil, fmt.Errorf("Metadata.Add: %w", err)
		}
	}
	for _, i := range order {
		if err := b.Insert(keys[i], vfC04derive(c.ValSeed, i, c.ValueSize)); err != nil {
			return nil, fmt.Errorf("Insert: %w", err)
		}
	}
	if c.DupOf >= 0 && c.DupOf < len(keys) {
		vi := c.DupOf
		if c.DupDiff {
			vi = len(keys) + 1
		}
		if err := b.Insert(keys[c.DupOf], vfC04derive(c.ValSeed, vi, c.ValueSize)); err != nil {
			return nil, fmt.Errorf("Insert(dup): %w", err)
		}
	}
	fp := filepath.Join(dir, "idx-"+tag)
	f, err := os.OpenFile(fp, os.O_CREATE|os.O_RDWR|os.O_TRUNC, 0o644)
	if err != nil {
		return nil, err
	}
	defer f.Close()
	if err := b.Seal(context.Background(), f); err != nil {
		return nil, fmt.Errorf("Seal: %w", err)
	}
	return os.ReadFile(fp)
}

type vfC04Result struct {
	sealed     bool
	maxBucket  int
	dupBucket  int // population (without the duplicate) of the bucket that receives the duplicate
	pairBucket int // population of the bucket of the colliding pair
	numBuckets int
}

// vfC04eval returns a non-nil error iff the property is violated on c.
func vfC04eval(c *vfC04Case) (res vfC04Result, verr error) {
	dir := vfh.TmpDir("c04")
	defer os.RemoveAll(dir)
	keys := c.allKeys()
	n := len(keys)
	ident := make([]int, n)
	for i := range ident {
		ident[i] = i
	}
	// value sizes above 252 cannot be represented (HashSize+valueSize is a uint8 stride in the format):
	// for them an error is the allowed outcome, a panic or a lossy index is not.
	supported := c.DupOf < 0 && c.ValueSize >= 1 && c.ValueSize <= 252 && c.Declared >= 1
	for _, k := range keys {
		if len(k) > 65535 {
			supported = false
		}
	}
	// bucket populations (for the "must succeed" rule)
	nb := (c.Declared + targetEntriesPerBucket - 1) / targetEntriesPerBucket
	if nb < 1 {
		nb = 1
	}
	res.numBuckets = nb
	h := Header{NumBuckets: uint32(nb)}
	pop := make([]int, nb)
	for _, k := range keys {
		pop[h.BucketHash(k)]++
	}
	for _, p := range pop {
		if p > res.maxBucket {
			res.maxBucket = p
		}
	}
	if c.DupOf >= 0 && c.DupOf < n {
		res.dupBucket = pop[h.BucketHash(keys[c.DupOf])]
	}
	if c.Collide && len(c.Keys) >= 2 {
		res.pairBucket = pop[h.BucketHash(c.Keys[len(c.Keys)-1])]
	}
	mustSucceed := supported && res.maxBucket <= 11000

	var raw1 []byte
	err, panicked := vfh.Catch(func() error {
		var e error
		raw1, e = vfC04build(dir, c, keys, ident, "a")
		return e
	})
	if panicked {
		return res, fmt.Errorf("builder panicked instead of returning an error: %v", err)
	}
	if err != nil {
		if mustSucceed {
			return res, fmt.Errorf("supported key set (n=%d, maxBucket=%d, valueSize=%d) failed to build: %v", n, res.maxBucket, c.ValueSize, err)
		}
		return res, nil // building failed with an error: allowed for unsupported / over-full input
	}
	res.sealed = true
	if c.DupOf >= 0 && c.DupDiff {
		return res, fmt.Errorf("key #%d (len %d) was inserted twice with two different values and Seal returned nil (n=%d, declared=%d, %d buckets): one of the two values is lost", c.DupOf, len(keys[c.DupOf]), n, c.Declared, nb)
	}
	// Seal returned nil: every inserted key must be answered exactly.
	check := func(raw []byte, tag string) error {
		db, err := Open(bytes.NewReader(raw))
		if err != nil {
			return fmt.Errorf("%s: Open after successful Seal: %v", tag, err)
		}
		for i, k := range keys {
			want := vfC04derive(c.ValSeed, i, c.ValueSize)
			got, err := db.Lookup(k)
			if err != nil {
				return fmt.Errorf("%s: Seal returned nil but Lookup(key #%d len %d) = error %v", tag, i, len(k), err)
			}
			if !bytes.Equal(got, want) {
				return fmt.Errorf("%s: Seal returned nil but Lookup(key #%d len %d) returned a different value", tag, i, len(k))
			}
		}
		// metadata round trip
		if len(db.Header.Metadata.KeyVals) != len(c.Meta) {
			return fmt.Errorf("%s: metadata count %d != %d", tag, len(db.Header.Metadata.KeyVals), len(c.Meta))
		}
		for i, kv := range c.Meta {
			g := db.Header.Metadata.KeyVals[i]
			if !bytes.Equal(g.Key, kv.K) || !bytes.Equal(g.Value, kv.V) {
				return fmt.Errorf("%s: metadata pair %d differs", tag, i)
			}
		}
		if db.Header.ValueSize != uint64(c.ValueSize) {
			return fmt.Errorf("%s: value size %d != %d", tag, db.Header.ValueSize, c.ValueSize)
		}
		return nil
	}
	err, panicked = vfh.Catch(func() error { return check(raw1, "build1") })
	if err != nil {
		return res, err
	}
	// same inserts twice => byte-identical
	var raw2 []byte
	err, _ = vfh.Catch(func() error {
		var e error
		raw2, e = vfC04build(dir, c, keys, ident, "b")
		return e
	})
	if err != nil {
		return res, fmt.Errorf("second build of the same inserts failed: %v", err)
	}
	if !bytes.Equal(raw1, raw2) {
		return res, fmt.Errorf("two builds of the same insert sequence differ (%d vs %d bytes)", len(raw1), len(raw2))
	}
	// different insertion order => same answers
	if n > 1 {
		var raw3 []byte
		err, _ = vfh.Catch(func() error {
			var e error
			raw3, e = vfC04build(dir, c, keys, vfC04perm(n, c.PermSeed), "c")
			return e
		})
		if err != nil {
			return res, fmt.Errorf("build with permuted insertion order failed: %v", err)
		}
		if err, _ := vfh.Catch(func() error { return check(raw3, "permuted") }); err != nil {
			return res, err
		}
	}
	return res, nil
}

var vfC04Shapes = []string{"small", "small", "small", "onebucket-adversarial", "collide24", "dup", "meta-max", "longkeys", "bigvalue", "declared-low", "declared-high", "dup", "meta", "key64k", "val253", "emptykey"}

func vfC04gen(t *rapid.T, bulkOK bool) *vfC04Case {
	c := &vfC04Case{DupOf: -1}
	c.Shape = rapid.SampledFrom(vfC04Shapes).Draw(t, "shape")
	c.ValueSize = rapid.OneOf(rapid.IntRange(1, 48), rapid.SampledFrom([]int{1, 8, 36, 48, 100, 200, 251, 252})).Draw(t, "valueSize")
	c.ValSeed = rapid.Uint64().Draw(t, "valSeed")
	c.PermSeed = rapid.Uint64().Draw(t, "permSeed")
	keyGen := rapid.SliceOfN(rapid.Byte(), 0, 64)
	n := rapid.IntRange(1, 300).Draw(t, "n")
	if rapid.IntRange(0, 3).Draw(t, "tiny") == 0 {
		n = rapid.IntRange(1, 8).Draw(t, "ntiny")
	}
	switch c.Shape {
	case "longkeys":
		n = rapid.IntRange(1, 6).Draw(t, "nlong")
		keyGen = rapid.SliceOfN(rapid.Byte(), 1, 8)
	case "bigvalue":
		c.ValueSize = rapid.IntRange(200, 252).Draw(t, "bigValueSize")
	case "val253":
		c.ValueSize = rapid.SampledFrom([]int{253, 254, 255}).Draw(t, "v253")
		n = rapid.IntRange(1, 5).Draw(t, "n253")
	}
	seen := map[string]bool{}
	c.Keys = make([][]byte, 0, n)
	for len(c.Keys) < n {
		k := keyGen.Draw(t, "key")
		if c.Shape == "longkeys" {
			// a short drawn stem expanded to a long key (keeps the drawn data small)
			ln := rapid.SampledFrom([]int{255, 256, 4096, 65534, 65535}).Draw(t, "longlen")
			k = append(k, vfC04derive(uint64(len(c.Keys)), 7, ln-len(k))...)
		}
		if seen[string(k)] {
			// distinctness by construction: extend with the index
			k = append(append([]byte{}, k...), byte(len(c.Keys)), byte(len(c.Keys)>>8), 0xfe)
			if seen[string(k)] {
				continue
			}
		}
		seen[string(k)] = true
		c.Keys = append(c.Keys, k)
	}
	if c.Shape == "emptykey" && !seen[""] {
		c.Keys[0] = []byte{}
	}
	c.Declared = len(c.Keys)
	switch c.Shape {
	case "declared-low":
		c.Declared = rapid.IntRange(1, len(c.Keys)).Draw(t, "declLow")
	case "declared-high":
		c.Declared = len(c.Keys) * rapid.IntRange(2, 10).Draw(t, "declMul")
		if rapid.Bool().Draw(t, "declHuge") {
			c.Declared = rapid.IntRange(10001, 100000).Draw(t, "declHugeN")
		}
	case "onebucket-adversarial":
		// declared count gives 2..5 buckets; keep only keys of one bucket
		nb := rapid.IntRange(2, 5).Draw(t, "nb")
		c.Declared = (nb-1)*targetEntriesPerBucket + 1
		h := Header{NumBuckets: uint32(nb)}
		target := uint(rapid.IntRange(0, nb-1).Draw(t, "bucket"))
		kept := [][]byte{}
		for i, k := range c.Keys {
			// search a suffix that lands the key in the target bucket
			for s := 0; s < 4096; s++ {
				kk := append(append([]byte{}, k...), byte(s), byte(s>>8), byte(i))
				if h.BucketHash(kk) == target && !seen[string(kk)] {
					seen[string(kk)] = true
					kept = append(kept, kk)
					break
				}
			}
		}
		if len(kept) > 0 {
			c.Keys = kept
		}
	case "dup":
		// the duplicate among many keys, among very few, or alone in its bucket (over-declared count)
		switch rapid.IntRange(0, 3).Draw(t, "dupKind") {
		case 1:
			c.Keys = c.Keys[:min(len(c.Keys), rapid.IntRange(1, 3).Draw(t, "dupN"))]
		case 2:
			c.Declared = rapid.IntRange(10001, 100000).Draw(t, "dupDeclared")
		case 3:
			c.Keys = c.Keys[:min(len(c.Keys), rapid.IntRange(1, 3).Draw(t, "dupN"))]
			c.Declared = len(c.Keys) * rapid.IntRange(1, 20).Draw(t, "dupDeclMul")
		}
		c.DupOf = rapid.IntRange(0, len(c.Keys)-1).Draw(t, "dupOf")
		c.DupDiff = rapid.IntRange(0, 3).Draw(t, "dupDiff") > 0
	case "collide24":
		// two distinct keys of one bucket whose 24-bit entry hashes are equal in hash domain 0 (the domain the
		// miner tries first): found by a birthday search with the package's own hash functions. They are stored
		// alone, or next to the drawn keys; the builder has to move on to another domain.
		switch rapid.IntRange(0, 2).Draw(t, "collKind") {
		case 0:
			c.Keys = nil
		case 1:
			c.Keys = c.Keys[:min(len(c.Keys), rapid.IntRange(0, 3).Draw(t, "collN"))]
			c.Declared = rapid.IntRange(10001, 60000).Draw(t, "collDeclared")
		}
		if len(c.Keys) == 0 && c.Declared < 2 {
			c.Declared = 2
		}
		nb := (c.Declared + targetEntriesPerBucket - 1) / targetEntriesPerBucket
		h := Header{NumBuckets: uint32(max(nb, 1))}
		bh := BucketHeader{HashDomain: 0, HashLen: HashSize}
		cseed := rapid.Uint64().Draw(t, "collSeed")
		first := map[uint64]int{}
		for i := 0; i < 400000; i++ {
			k := vfC04derive(cseed, i, 12)
			id := uint64(h.BucketHash(k))<<32 | bh.Hash(k)
			if j, ok := first[id]; ok {
				a := vfC04derive(cseed, j, 12)
				if !seen[string(a)] && !seen[string(k)] {
					c.Keys = append(c.Keys, a, k)
					c.Collide = true
				}
				break
			}
			first[id] = i
		}
		if c.Declared < len(c.Keys) && rapid.Bool().Draw(t, "collFix") {
			c.Declared = len(c.Keys)
		}
	case "meta":
		nm := rapid.SampledFrom([]int{1, 2, 5, 255}).Draw(t, "nmeta")
		for i := 0; i < nm; i++ {
			kl := rapid.SampledFrom([]int{0, 1, 4, 255}).Draw(t, "mkl")
			vl := rapid.SampledFrom([]int{0, 1, 36, 255}).Draw(t, "mvl")
			c.Meta = append(c.Meta, vfC04KV{K: vfC04derive(uint64(i), 1, kl), V: vfC04derive(uint64(i), 2, vl)})
		}
	case "meta-max":
		// the largest metadata the builder accepts: 255 pairs with keys and values at / just below 255 bytes
		kl := rapid.SampledFrom([]int{254, 255}).Draw(t, "mmkl")
		vl := rapid.SampledFrom([]int{253, 254, 255}).Draw(t, "mmvl")
		for i := 0; i < 255; i++ {
			c.Meta = append(c.Meta, vfC04KV{K: vfC04derive(uint64(i), 1, kl), V: vfC04derive(uint64(i), 2, vl)})
		}
	case "key64k":
		ln := rapid.SampledFrom([]int{65536, 65537, 70000, 131072 + 5}).Draw(t, "k64len")
		pos := rapid.IntRange(0, len(c.Keys)-1).Draw(t, "k64pos")
		c.Keys[pos] = vfC04derive(c.ValSeed, 99, ln)
	}
	if bulkOK {
		c.BulkN = rapid.SampledFrom([]int{0, 9999, 10000, 10001, 19999, 20000, 20001, 30000, 60000}).Draw(t, "bulkN")
		if c.BulkN > 0 {
			c.BulkSeed = rapid.Uint64().Draw(t, "bulkSeed")
			c.BulkLen = rapid.SampledFrom([]int{8, 32, 64}).Draw(t, "bulkLen")
			switch rapid.IntRange(0, 3).Draw(t, "bulkDecl") {
			case 0:
				c.Declared = len(c.Keys) + c.BulkN
			case 1:
				c.Declared = c.BulkN
			case 2:
				c.Declared = (len(c.Keys) + c.BulkN) * 2
			case 3:
				c.Declared = (len(c.Keys)+c.BulkN)*10/11 + 1
			}
		}
	}
	return c
}

func vfC04classes(c *vfC04Case, r vfC04Result) (bool, []string) {
	cls := []string{"shape:" + c.Shape}
	if r.numBuckets > 1 {
		cls = append(cls, "multi-bucket")
	}
	if r.sealed {
		cls = append(cls, "sealed")
	} else {
		cls = append(cls, "error-path")
	}
	if c.DupOf >= 0 && r.dupBucket == 1 {
		cls = append(cls, "dup-in-bucket-of-two")
	}
	if c.Collide {
		cls = append(cls, "domain0-colliding-pair")
		if r.pairBucket == 2 {
			cls = append(cls, "domain0-colliding-pair-alone-in-bucket")
		}
	}
	if c.ValueSize >= 200 {
		cls = append(cls, "valueSize>=200")
	}
	if c.BulkN > 0 {
		cls = append(cls, fmt.Sprintf("bulk:%d", c.BulkN))
	}
	n := len(c.Keys) + c.BulkN
	nontrivial := r.numBuckets >= 2 || n >= 3
	return nontrivial, cls
}

func vfC04sample(c *vfC04Case, r vfC04Result) map[string]any {
	ks := []string{}
	for i, k := range c.Keys {
		if i >= 4 {
			break
		}
		ks = append(ks, fmt.Sprintf("%x", k[:min(len(k), 12)])+fmt.Sprintf("(len %d)", len(k)))
	}
	return map[string]any{"shape": c.Shape, "valueSize": c.ValueSize, "declared": c.Declared, "explicitKeys": len(c.Keys),
		"bulk": c.BulkN, "dupOf": c.DupOf, "meta": len(c.Meta), "firstKeys": ks, "sealed": r.sealed, "buckets": r.numBuckets, "maxBucket": r.maxBucket}
}

func TestVfC04Sized(t *testing.T) {
	run := vfh.Begin("C04", "sized")
	defer run.End(t)
	run.Require("shape:small", "shape:onebucket-adversarial", "dup-in-bucket-of-two", "domain0-colliding-pair-alone-in-bucket", "shape:longkeys", "shape:dup", "shape:meta", "shape:meta-max", "shape:key64k", "shape:val253", "multi-bucket", "error-path", "sealed")
	// regression tier: committed minimal cases of confirmed findings
	for _, p := range vfh.ReplayFiles("C04", "sized") {
		var c vfC04Case
		if err := vfh.LoadCaseFile(p, &c); err != nil {
			t.Fatalf("regress %s: %v", p, err)
		}
		run.SetLast(&c)
		if _, err := vfC04eval(&c); err != nil {
			t.Fatalf("regression case %s: %v", filepath.Base(p), err)
		}
		run.Class("regress-replayed")
	}
	rapid.Check(t, func(rt *rapid.T) {
		c := vfC04gen(rt, false)
		run.SetLast(c)
		r, err := vfC04eval(c)
		nt, cls := vfC04classes(c, r)
		run.Case(c, nt, vfC04sample(c, r), cls...)
		if err != nil {
			rt.Fatalf("C04 violated: %v", err)
		}
	})
}

// TestVfC04SizedBulk: key sets around the 10 000-entries-per-bucket boundary.
func TestVfC04SizedBulk(t *testing.T) {
	run := vfh.Begin("C04", "sized-bulk")
	defer run.End(t)
	rapid.Check(t, func(rt *rapid.T) {
		c := vfC04gen(rt, true)
		if c.Shape == "key64k" || c.Shape == "val253" || c.Shape == "dup" {
			c.BulkN = min(c.BulkN, 10001)
		}
		run.SetLast(c)
		r, err := vfC04eval(c)
		nt, cls := vfC04classes(c, r)
		run.Case(c, nt, vfC04sample(c, r), cls...)
		if err != nil {
			rt.Fatalf("C04 violated: %v", err)
		}
	})
}

func TestVfReplayC04(t *testing.T) {
	var c vfC04Case
	if !vfh.LoadReplay(t, &c) {
		t.Skip("no VERIF_REPLAY")
	}
	if _, err := vfC04eval(&c); err != nil {
		t.Fatalf("C04 violated: %v", err)
	}
}
