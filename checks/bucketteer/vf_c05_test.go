package bucketteer

// C05: no false negatives in the signature-existence index; Writer.Has agrees
// with the sealed file; a positive answer implies an added signature with the
// same prefix and 64-bit hash. Model = set of (prefix, hash) built by the harness.

import (
	"bytes"
	"crypto/sha256"
	"encoding/binary"
	"fmt"
	"os"
	"path/filepath"
	"runtime"
	"sync"
	"testing"

	"github.com/rpcpool/yellowstone-faithful/indexmeta"
	"github.com/rpcpool/yellowstone-faithful/zz_verif/vfh"
	"pgregory.net/rapid"
)

type vfC05Bucket struct {
	Prefix uint16
	Pop    int // distinct signatures in this prefix
	Dups   int // how many of them are added twice
}

type vfC05Case struct {
	Seed    uint64
	Buckets []vfC05Bucket
	Order   string // "grouped", "interleaved", "reverse"
	MetaN   int
	Probes  int
	Shape   string
}

func vfC05sig(seed uint64, prefix uint16, i int) (s [64]byte) {
	var b [24]byte
	binary.LittleEndian.PutUint64(b[:8], seed)
	binary.LittleEndian.PutUint64(b[8:16], uint64(prefix))
	binary.LittleEndian.PutUint64(b[16:], uint64(i))
	h1 := sha256.Sum256(b[:])
	b[23] ^= 0x80
	h2 := sha256.Sum256(b[:])
	copy(s[:32], h1[:])
	copy(s[32:], h2[:])
	s[0] = byte(prefix)
	s[1] = byte(prefix >> 8)
	return
}

func (c *vfC05Case) sigs() [][64]byte {
	var out [][64]byte
	for _, b := range c.Buckets {
		for i := 0; i < b.Pop; i++ {
			out = append(out, vfC05sig(c.Seed, b.Prefix, i))
		}
		for i := 0; i < b.Dups && i < b.Pop; i++ {
			out = append(out, vfC05sig(c.Seed, b.Prefix, i))
		}
	}
	switch c.Order {
	case "reverse":
		for i, j := 0, len(out)-1; i < j; i, j = i+1, j-1 {
			out[i], out[j] = out[j], out[i]
		}
	case "interleaved":
		// stride permutation (pure function of the case)
		n := len(out)
		if n > 2 {
			p := make([][64]byte, 0, n)
			step := n/2 + 1
			for gcd(step, n) != 1 {
				step++
			}
			for i, k := 0, 0; i < n; i, k = i+1, (k+step)%n {
				p = append(p, out[k])
			}
			out = p
		}
	}
	return out
}

func gcd(a, b int) int {
	for b != 0 {
		a, b = b, a%b
	}
	return a
}

func vfC05meta(n int) indexmeta.Meta {
	var m indexmeta.Meta
	for i := 0; i < n; i++ {
		k := []byte(fmt.Sprintf("k%d", i))
		v := bytes.Repeat([]byte{byte(i)}, (i*37)%256)
		m.Add(k, v)
	}
	return m
}

// NewWriter preallocates 65536 slices of 16000 entries (8 GiB of address space).
// When the garbage collector recycles that memory it has to be re-zeroed, which
// costs seconds per writer, so this unit is run with GOGC=off and a bounded
// number of cases per process (see vf_units.py).
func vfC05newWriter(path string) (*Writer, error) { return NewWriter(path) }

type vfSliceReaderAt struct{ b []byte }

func (s vfSliceReaderAt) ReadAt(p []byte, off int64) (int, error) {
	return bytes.NewReader(s.b).ReadAt(p, off)
}

func vfC05eval(c *vfC05Case) error {
	dir := vfh.TmpDir("c05")
	defer os.RemoveAll(dir)
	path := filepath.Join(dir, "sig-exists.index")
	w, err := vfC05newWriter(path)
	if err != nil {
		return fmt.Errorf("NewWriter: %v", err)
	}
	sigs := c.sigs()
	model := map[uint16]map[uint64]bool{}
	for _, s := range sigs {
		w.Put(s)
		p := binary.LittleEndian.Uint16(s[:2])
		if model[p] == nil {
			model[p] = map[uint64]bool{}
		}
		model[p][Hash(s)] = true
	}
	meta := vfC05meta(c.MetaN)
	// writer-side membership before sealing
	for i, s := range sigs {
		if !w.Has(s) {
			return fmt.Errorf("Writer.Has false for added signature #%d (prefix %04x)", i, binary.LittleEndian.Uint16(s[:2]))
		}
	}
	if _, err := w.Seal(meta); err != nil {
		return fmt.Errorf("Seal: %v", err)
	}
	if err := w.Close(); err != nil {
		return fmt.Errorf("Close: %v", err)
	}
	raw, err := os.ReadFile(path)
	if err != nil {
		return err
	}
	f, err := os.Open(path)
	if err != nil {
		return err
	}
	defer f.Close()
	type rd struct {
		name string
		r    *Reader
	}
	var readers []rd
	r1, err := Open(path)
	if err != nil {
		return fmt.Errorf("Open(sealed file): %v", err)
	}
	defer r1.Close()
	readers = append(readers, rd{"mmap", r1})
	r2, err := NewReader(f)
	if err != nil {
		return fmt.Errorf("NewReader(os.File): %v", err)
	}
	readers = append(readers, rd{"file", r2})
	r3, err := NewReader(vfSliceReaderAt{raw})
	if err != nil {
		return fmt.Errorf("NewReader(memory): %v", err)
	}
	readers = append(readers, rd{"mem", r3})
	// probes: not-added signatures, half of them forced into populated prefixes
	var probes [][64]byte
	for i := 0; i < c.Probes; i++ {
		var p uint16
		if i%2 == 0 && len(c.Buckets) > 0 {
			p = c.Buckets[(i/2)%len(c.Buckets)].Prefix
		} else {
			p = uint16(binary.LittleEndian.Uint64(vfC05sigBytes(c.Seed^0xabcdef, i)))
		}
		probes = append(probes, vfC05sig(c.Seed^0x5555aaaa5555aaaa, p, 1_000_000+i))
	}
	// one reader shared by concurrent lookups, as in the server (one reader per epoch, every request in its own
	// goroutine, epochs searched in parallel): over the mapped file, and over a ReaderAt that yields the processor
	// after delivering its bytes (storage that blocks)
	if len(sigs) > 0 {
		r4, err := NewReader(vfYieldReaderAt{vfSliceReaderAt{raw}})
		if err != nil {
			return fmt.Errorf("NewReader(yielding memory): %v", err)
		}
		for _, x := range []rd{{"mmap, concurrent", r1}, {"yielding, concurrent", r4}} {
			var wg sync.WaitGroup
			bad := make(chan error, 8)
			for g := 0; g < 8; g++ {
				wg.Add(1)
				go func(g int) {
					defer wg.Done()
					for k := 0; k < 400; k++ {
						i := (g*7919 + k*31) % len(sigs)
						ok, err := x.r.Has(sigs[i])
						if err != nil || !ok {
							select {
							case bad <- fmt.Errorf("[%s] Has(added signature #%d) = %v, %v while 8 goroutines share the reader", x.name, i, ok, err):
							default:
							}
							return
						}
					}
				}(g)
			}
			wg.Wait()
			select {
			case err := <-bad:
				return err
			default:
			}
		}
	}
	for _, x := range readers {
		for i, s := range sigs {
			ok, err := x.r.Has(s)
			if err != nil {
				return fmt.Errorf("[%s] Has(added signature #%d) error: %v", x.name, i, err)
			}
			if !ok {
				return fmt.Errorf("[%s] false negative: added signature #%d (prefix %04x, bucket of %d) reported absent", x.name, i, binary.LittleEndian.Uint16(s[:2]), len(model[binary.LittleEndian.Uint16(s[:2])]))
			}
		}
		for i, s := range probes {
			ok, err := x.r.Has(s)
			if err != nil {
				return fmt.Errorf("[%s] Has(probe #%d) error: %v", x.name, i, err)
			}
			inModel := model[binary.LittleEndian.Uint16(s[:2])][Hash(s)]
			if ok && !inModel {
				return fmt.Errorf("[%s] signature reported present although no added signature has its prefix and hash (probe #%d)", x.name, i)
			}
			if !ok && inModel {
				return fmt.Errorf("[%s] hash-equal signature reported absent (probe #%d)", x.name, i)
			}
			if w.Has(s) != ok {
				return fmt.Errorf("[%s] Writer.Has=%v disagrees with sealed file=%v on probe #%d", x.name, w.Has(s), ok, i)
			}
		}
	}
	return nil
}

func vfC05sigBytes(seed uint64, i int) []byte {
	s := vfC05sig(seed, 0, i)
	return s[8:16]
}

var vfC05Pops = []int{0, 1, 2, 3, 4, 5, 6, 7, 8, 9, 15, 16, 17, 31, 32, 33, 63, 64, 65, 127, 128, 129, 255, 256, 257, 1000}

func vfC05gen(t *rapid.T) *vfC05Case {
	c := &vfC05Case{}
	c.Shape = rapid.SampledFrom([]string{"mixed", "mixed", "one-prefix", "many-prefixes", "edge-prefixes", "empty", "dups", "all-prefixes", "big-bucket"}).Draw(t, "shape")
	c.Seed = rapid.Uint64().Draw(t, "seed")
	c.Order = rapid.SampledFrom([]string{"grouped", "interleaved", "reverse"}).Draw(t, "order")
	c.MetaN = rapid.SampledFrom([]int{0, 1, 3, 20}).Draw(t, "metaN")
	c.Probes = 200
	nb := rapid.IntRange(1, 40).Draw(t, "nb")
	switch c.Shape {
	case "one-prefix":
		nb = 1
	case "many-prefixes":
		nb = rapid.IntRange(200, 1500).Draw(t, "nbMany")
	case "empty":
		nb = 0
	}
	used := map[uint16]bool{}
	if c.Shape == "all-prefixes" {
		// every one of the 65 536 two-byte prefixes populated (or all but one): the prefix table at its full size
		skip := -1
		if rapid.Bool().Draw(t, "allButOne") {
			skip = rapid.IntRange(0, 65535).Draw(t, "skipPrefix")
		}
		for p := 0; p < 65536; p++ {
			if p == skip {
				continue
			}
			pop := 1
			if p == 0 || p == 0xffff || p == 0x00ff || p == 0xff00 {
				pop = 3
			}
			c.Buckets = append(c.Buckets, vfC05Bucket{Prefix: uint16(p), Pop: pop})
			used[uint16(p)] = true
		}
		nb = 0
	}
	if c.Shape == "big-bucket" {
		// one prefix filled around / beyond the writer's per-bucket reservation (16 000 entries), its neighbours
		// in both byte orders lightly populated
		p := rapid.Uint16().Draw(t, "bigPrefix")
		big := rapid.SampledFrom([]int{15999, 16000, 16001, 16002, 16500, 32001}).Draw(t, "bigPop")
		d := 0
		if rapid.IntRange(0, 3).Draw(t, "bigDup") == 0 {
			d = rapid.IntRange(1, 40).Draw(t, "bigDups")
		}
		c.Buckets = append(c.Buckets, vfC05Bucket{Prefix: p, Pop: big, Dups: d})
		used[p] = true
		for _, q := range []uint16{p + 1, p - 1, p + 256, p - 256} {
			if !used[q] && rapid.IntRange(0, 3).Draw(t, "neighbour") > 0 {
				used[q] = true
				c.Buckets = append(c.Buckets, vfC05Bucket{Prefix: q, Pop: rapid.IntRange(1, 12).Draw(t, "neighbourPop")})
			}
		}
		nb = rapid.IntRange(0, 5).Draw(t, "nbExtra")
	}
	for i := 0; i < nb; i++ {
		var p uint16
		if c.Shape == "edge-prefixes" && i < 4 {
			p = []uint16{0, 0xffff, 0x00ff, 0xff00}[i]
		} else {
			p = rapid.Uint16().Draw(t, "prefix")
		}
		if used[p] {
			continue
		}
		used[p] = true
		pop := rapid.SampledFrom(vfC05Pops).Draw(t, "pop")
		if c.Shape == "many-prefixes" {
			pop = rapid.IntRange(0, 4).Draw(t, "popSmall")
		}
		if c.Shape == "one-prefix" && vfh.Thorough() {
			pop = rapid.SampledFrom([]int{1000, 4095, 4096, 4097, 20000, 65537, 200000}).Draw(t, "popBig")
		}
		d := 0
		if pop > 0 && (c.Shape == "dups" || rapid.IntRange(0, 3).Draw(t, "hasDup") == 0) {
			d = rapid.IntRange(1, pop).Draw(t, "dups")
		}
		c.Buckets = append(c.Buckets, vfC05Bucket{Prefix: p, Pop: pop, Dups: d})
	}
	return c
}

func vfC05classes(c *vfC05Case) (bool, []string) {
	cls := []string{"shape:" + c.Shape, "order:" + c.Order}
	has3, hasDup := false, false
	total := 0
	for _, b := range c.Buckets {
		total += b.Pop
		if b.Pop >= 3 {
			has3 = true
		}
		if b.Dups > 0 {
			hasDup = true
		}
		if b.Pop > 0 && b.Pop&(b.Pop-1) == 0 {
			cls = append(cls, "pop=2^k")
		}
		if b.Pop == 0 {
			cls = append(cls, "pop=0")
		}
	}
	if total == 0 {
		cls = append(cls, "no-signatures")
	}
	return has3 && hasDup, cls
}

func TestVfC05(t *testing.T) {
	run := vfh.Begin("C05", "current")
	defer run.End(t)
	run.Require("shape:big-bucket", "shape:all-prefixes", "shape:mixed", "shape:one-prefix", "shape:many-prefixes", "shape:edge-prefixes", "shape:empty", "shape:dups", "pop=2^k", "pop=0")
	rapid.Check(t, func(rt *rapid.T) {
		c := vfC05gen(rt)
		run.SetLast(c)
		err, _ := vfh.Catch(func() error { return vfC05eval(c) })
		nt, cls := vfC05classes(c)
		run.Case(c, nt, c, cls...)
		if err != nil {
			rt.Fatalf("C05 violated: %v", err)
		}
	})
}

func TestVfReplayC05(t *testing.T) {
	var c vfC05Case
	if !vfh.LoadReplay(t, &c) {
		t.Skip("no VERIF_REPLAY")
	}
	if err := vfC05eval(&c); err != nil {
		t.Fatalf("C05 violated: %v", err)
	}
}

// vfYieldReaderAt hands the processor to other goroutines after every read (a stand-in for storage that blocks).
type vfYieldReaderAt struct{ r vfSliceReaderAt }

func (y vfYieldReaderAt) ReadAt(p []byte, off int64) (int, error) {
	n, err := y.r.ReadAt(p, off)
	runtime.Gosched()
	return n, err
}
