package main

// C02: getBlock / getTransaction / getBlockTime (JSON-RPC and gRPC) reproduce the
// archive exactly for every archived slot and signature, whichever epochs are
// loaded alongside and for every epoch-search concurrency.

import (
	"bytes"
	"context"
	"encoding/base64"
	"fmt"
	"io"
	"runtime"
	"sort"
	"testing"

	"github.com/gagliardetto/solana-go"
	"github.com/klauspost/compress/zstd"
	"github.com/mr-tron/base58"
	old_faithful_grpc "github.com/rpcpool/yellowstone-faithful/old-faithful-proto/old-faithful-grpc"
	"github.com/rpcpool/yellowstone-faithful/zz_verif/cargen"
	"github.com/rpcpool/yellowstone-faithful/zz_verif/vfh"
	"google.golang.org/grpc/metadata"
	"pgregory.net/rapid"
)

type vfC02Case struct {
	Specs       []*cargen.EpochSpec
	Concurrency int
	EncSeed     int
}

var vfEncodings = []string{"base58", "base64", "base64+zstd", "json", ""}

var vfZstdDec, _ = zstd.NewReader(nil)

// vfDecodeTxPayload decodes the `transaction` member for the byte encodings.
func vfDecodeTxPayload(v any, enc string) ([]byte, error) {
	arr, ok := v.([]any)
	if !ok || len(arr) != 2 {
		return nil, fmt.Errorf("transaction is not [data, encoding]: %v", vfh.Short(v, 80))
	}
	s, _ := arr[0].(string)
	if arr[1] != enc {
		return nil, fmt.Errorf("encoding tag %v, requested %s", arr[1], enc)
	}
	switch enc {
	case "base58":
		return base58.Decode(s)
	case "base64":
		return base64.StdEncoding.DecodeString(s)
	case "base64+zstd":
		z, err := base64.StdEncoding.DecodeString(s)
		if err != nil {
			return nil, err
		}
		return vfZstdDec.DecodeAll(z, nil)
	}
	return nil, fmt.Errorf("unknown encoding %s", enc)
}

func vfNums(v any) []uint64 {
	arr, _ := v.([]any)
	out := make([]uint64, 0, len(arr))
	for _, x := range arr {
		f, _ := x.(float64)
		out = append(out, uint64(f))
	}
	return out
}

func vfStrs(v any) []string {
	arr, _ := v.([]any)
	out := make([]string, 0, len(arr))
	for _, x := range arr {
		s, _ := x.(string)
		out = append(out, s)
	}
	return out
}

func vfKeyStrs(ks []solana.PublicKey) []string {
	out := make([]string, 0, len(ks))
	for _, k := range ks {
		out = append(out, k.String())
	}
	return out
}

// vfCheckTxJSON compares one transaction object of a JSON-RPC response with the ground truth.
func vfCheckTxJSON(m map[string]any, tx *cargen.TxInfo, enc string) error {
	if m == nil {
		return fmt.Errorf("transaction entry is not an object")
	}
	if enc == "" {
		enc = "json"
	}
	if enc == "json" {
		t, _ := m["transaction"].(map[string]any)
		if t == nil {
			return fmt.Errorf("json transaction is not an object")
		}
		sigs := vfStrs(t["signatures"])
		if len(sigs) != len(tx.Sigs) {
			return fmt.Errorf("%d signatures, archived %d", len(sigs), len(tx.Sigs))
		}
		for i := range sigs {
			if sigs[i] != tx.Sigs[i].String() {
				return fmt.Errorf("signature %d is %s, archived %s", i, sigs[i], tx.Sigs[i])
			}
		}
		msg, _ := t["message"].(map[string]any)
		if msg == nil {
			return fmt.Errorf("json transaction without message")
		}
		if got, want := fmt.Sprint(vfStrs(msg["accountKeys"])), fmt.Sprint(vfKeyStrs(tx.Static)); got != want {
			return fmt.Errorf("accountKeys %s, archived %s", got, want)
		}
		var dec solana.Transaction
		if err := dec.UnmarshalWithDecoder(newBinDecoder(tx.TxBytes)); err != nil {
			return fmt.Errorf("harness: %v", err)
		}
		if msg["recentBlockhash"] != dec.Message.RecentBlockhash.String() {
			return fmt.Errorf("recentBlockhash %v, archived %s", msg["recentBlockhash"], dec.Message.RecentBlockhash)
		}
		insts, _ := msg["instructions"].([]any)
		if len(insts) != len(dec.Message.Instructions) {
			return fmt.Errorf("%d instructions, archived %d", len(insts), len(dec.Message.Instructions))
		}
		for i, x := range insts {
			im, _ := x.(map[string]any)
			if im == nil {
				return fmt.Errorf("instruction %d is not an object", i)
			}
			if d, _ := im["data"].(string); d != base58.Encode(dec.Message.Instructions[i].Data) {
				return fmt.Errorf("instruction %d data differs", i)
			}
			if p, _ := im["programIdIndex"].(float64); uint16(p) != dec.Message.Instructions[i].ProgramIDIndex {
				return fmt.Errorf("instruction %d programIdIndex %v, archived %d", i, im["programIdIndex"], dec.Message.Instructions[i].ProgramIDIndex)
			}
		}
	} else {
		raw, err := vfDecodeTxPayload(m["transaction"], enc)
		if err != nil {
			return err
		}
		if !bytes.Equal(raw, tx.TxBytes) {
			return fmt.Errorf("transaction payload (%s) decodes to %d bytes that differ from the archived %d bytes", enc, len(raw), len(tx.TxBytes))
		}
	}
	// version
	if tx.Spec.V0 && !tx.Spec.Vote {
		if v, ok := m["version"].(float64); !ok || v != 0 {
			return fmt.Errorf("version %v, archived transaction is v0", m["version"])
		}
	} else if m["version"] != "legacy" {
		return fmt.Errorf("version %v, archived transaction is legacy", m["version"])
	}
	// meta
	if tx.MetaRaw == nil {
		if m["meta"] != nil {
			return fmt.Errorf("meta %v although the transaction has no metadata", vfh.Short(m["meta"], 80))
		}
		return nil
	}
	meta, _ := m["meta"].(map[string]any)
	if meta == nil {
		return fmt.Errorf("meta is missing")
	}
	want := tx.Meta()
	if f, _ := meta["fee"].(float64); uint64(f) != want.Fee {
		return fmt.Errorf("meta.fee %v, archived %d", meta["fee"], want.Fee)
	}
	if got := fmt.Sprint(vfNums(meta["preBalances"])); got != fmt.Sprint(want.PreBalances) {
		return fmt.Errorf("meta.preBalances %s, archived %v", got, want.PreBalances)
	}
	if got := fmt.Sprint(vfNums(meta["postBalances"])); got != fmt.Sprint(want.PostBalances) {
		return fmt.Errorf("meta.postBalances %s, archived %v", got, want.PostBalances)
	}
	if got := vfStrs(meta["logMessages"]); fmt.Sprint(got) != fmt.Sprint(want.LogMessages) {
		return fmt.Errorf("meta.logMessages: %d lines, archived %d (or content differs)", len(got), len(want.LogMessages))
	}
	if (meta["err"] != nil) != tx.Failed {
		return fmt.Errorf("meta.err %v, archived failed=%v", meta["err"], tx.Failed)
	}
	la, _ := meta["loadedAddresses"].(map[string]any)
	if la == nil {
		return fmt.Errorf("meta.loadedAddresses missing")
	}
	if got, want := fmt.Sprint(vfStrs(la["writable"])), fmt.Sprint(vfKeyStrs(tx.LoadedW)); got != want {
		return fmt.Errorf("loadedAddresses.writable %s, archived %s", got, want)
	}
	if got, want := fmt.Sprint(vfStrs(la["readonly"])), fmt.Sprint(vfKeyStrs(tx.LoadedR)); got != want {
		return fmt.Errorf("loadedAddresses.readonly %s, archived %s", got, want)
	}
	return nil
}

// fake bidirectional stream for MultiEpoch.Get
type vfGetStream struct {
	ctx  context.Context
	in   []*old_faithful_grpc.GetRequest
	out  []*old_faithful_grpc.GetResponse
	next int
}

func (s *vfGetStream) Send(r *old_faithful_grpc.GetResponse) error {
	s.out = append(s.out, r)
	return nil
}
func (s *vfGetStream) Recv() (*old_faithful_grpc.GetRequest, error) {
	if s.next >= len(s.in) {
		return nil, io.EOF
	}
	s.next++
	return s.in[s.next-1], nil
}
func (s *vfGetStream) SetHeader(metadata.MD) error  { return nil }
func (s *vfGetStream) SendHeader(metadata.MD) error { return nil }
func (s *vfGetStream) SetTrailer(metadata.MD)       {}
func (s *vfGetStream) Context() context.Context     { return s.ctx }
func (s *vfGetStream) SendMsg(m any) error          { return nil }
func (s *vfGetStream) RecvMsg(m any) error          { return nil }

func vfCheckGrpcBlock(resp *old_faithful_grpc.BlockResponse, ep *cargen.Epoch, b *cargen.BlockInfo, prev *cargen.BlockInfo) error {
	if resp.Slot != b.Slot {
		return fmt.Errorf("slot %d", resp.Slot)
	}
	genesisSlot := b.Slot == 0
	if !genesisSlot {
		if resp.ParentSlot != b.Parent {
			return fmt.Errorf("parent slot %d, archived %d", resp.ParentSlot, b.Parent)
		}
		if resp.BlockTime != b.Blocktime {
			return fmt.Errorf("block time %d, archived %d", resp.BlockTime, b.Blocktime)
		}
		if b.Height != nil && resp.BlockHeight != *b.Height {
			return fmt.Errorf("block height %d, archived %d", resp.BlockHeight, *b.Height)
		}
		if b.Height == nil && resp.BlockHeight != 0 {
			return fmt.Errorf("block height %d, none archived", resp.BlockHeight)
		}
		if prev != nil && prev.Slot == b.Parent && prev.HasEntries {
			if !bytes.Equal(resp.PreviousBlockhash, prev.Blockhash[:]) {
				return fmt.Errorf("previous blockhash %x, parent block's hash is %x", resp.PreviousBlockhash, prev.Blockhash[:])
			}
		}
	}
	if b.HasEntries && !bytes.Equal(resp.Blockhash, b.Blockhash[:]) {
		return fmt.Errorf("blockhash %x, archived %x", resp.Blockhash, b.Blockhash[:])
	}
	if len(resp.Transactions) != len(b.Txs) {
		return fmt.Errorf("%d transactions, archived %d", len(resp.Transactions), len(b.Txs))
	}
	got := resp.Transactions
	want := b.Txs
	if !ep.Spec.TxIndex {
		// no recorded positions: compare as sets
		got = append([]*old_faithful_grpc.Transaction{}, got...)
		sort.Slice(got, func(i, j int) bool { return bytes.Compare(got[i].Transaction, got[j].Transaction) < 0 })
		want = append([]*cargen.TxInfo{}, want...)
		sort.Slice(want, func(i, j int) bool { return bytes.Compare(want[i].TxBytes, want[j].TxBytes) < 0 })
	}
	for i, t := range got {
		w := want[i]
		if !bytes.Equal(t.Transaction, w.TxBytes) {
			return fmt.Errorf("transaction %d: payload differs from the archived transaction at position %d", i, w.Pos)
		}
		if !bytes.Equal(t.Meta, w.MetaRaw) {
			return fmt.Errorf("transaction %d: metadata (%d bytes) differs from the archived %d bytes", i, len(t.Meta), len(w.MetaRaw))
		}
		if ep.Spec.TxIndex && (t.Index == nil || *t.Index != uint64(w.Pos)) {
			return fmt.Errorf("transaction %d: index %v, archived position %d", i, t.Index, w.Pos)
		}
	}
	if !bytes.Equal(resp.Rewards, b.RewardsRaw) {
		return fmt.Errorf("rewards (%d bytes) differ from the archived %d bytes", len(resp.Rewards), len(b.RewardsRaw))
	}
	return nil
}

func vfC02eval(c *vfC02Case, st map[string]int) error {
	l, err := vfLoadEpochs(c.Specs, false, &Options{EpochSearchConcurrency: c.Concurrency})
	defer l.Close()
	if err != nil {
		return err
	}
	if len(l.eps) == 0 {
		return nil
	}
	h := newMultiEpochHandler(l.multi, nil)
	ctx := context.Background()
	encI := c.EncSeed
	nextEnc := func() string {
		encI++
		return vfEncodings[encI%len(vfEncodings)]
	}
	st["epochs"] = len(l.eps)
	for _, ep := range l.eps {
		for bi, b := range ep.Blocks {
			var prev *cargen.BlockInfo
			if bi > 0 {
				prev = ep.Blocks[bi-1]
			}
			// --- JSON-RPC getBlock ---
			enc := nextEnc()
			params := []any{b.Slot}
			if enc != "" {
				params = append(params, map[string]any{"encoding": enc})
			}
			resp := vfCall(h, "getBlock", params...)
			where := fmt.Sprintf("getBlock(%d, %q) with %d epochs loaded, concurrency %d", b.Slot, enc, len(l.eps), c.Concurrency)
			if resp.JSON == nil || resp.JSON["error"] != nil {
				return fmt.Errorf("%s failed: %s", where, vfh.Short(string(resp.Body), 300))
			}
			res, _ := resp.JSON["result"].(map[string]any)
			if res == nil {
				return fmt.Errorf("%s: no result object: %s", where, vfh.Short(string(resp.Body), 200))
			}
			if b.Slot != 0 {
				if p, _ := res["parentSlot"].(float64); uint64(p) != b.Parent {
					return fmt.Errorf("%s: parentSlot %v, archived %d", where, res["parentSlot"], b.Parent)
				}
				if b.Blocktime == 0 {
					if res["blockTime"] != nil {
						return fmt.Errorf("%s: blockTime %v, none archived", where, res["blockTime"])
					}
				} else if bt, _ := res["blockTime"].(float64); int64(bt) != b.Blocktime {
					return fmt.Errorf("%s: blockTime %v, archived %d", where, res["blockTime"], b.Blocktime)
				}
				if b.Height != nil {
					if hh, ok := res["blockHeight"].(float64); !ok || uint64(hh) != *b.Height {
						return fmt.Errorf("%s: blockHeight %v, archived %d", where, res["blockHeight"], *b.Height)
					}
				} else if res["blockHeight"] != nil {
					return fmt.Errorf("%s: blockHeight %v, none archived", where, res["blockHeight"])
				}
				if prev != nil && prev.Slot == b.Parent && prev.HasEntries {
					if res["previousBlockhash"] != prev.Blockhash.String() {
						return fmt.Errorf("%s: previousBlockhash %v, the parent block's hash is %s", where, res["previousBlockhash"], prev.Blockhash)
					}
					st["prev-in-same-epoch"]++
				}
			}
			if b.HasEntries && res["blockhash"] != b.Blockhash.String() {
				return fmt.Errorf("%s: blockhash %v, archived %s", where, res["blockhash"], b.Blockhash)
			}
			txs, _ := res["transactions"].([]any)
			if len(txs) != len(b.Txs) {
				return fmt.Errorf("%s: %d transactions, archived %d", where, len(txs), len(b.Txs))
			}
			want := b.Txs
			if !ep.Spec.TxIndex {
				// no recorded positions: match by first signature / payload instead of by order
				bySig := map[string]*cargen.TxInfo{}
				for _, w := range b.Txs {
					bySig[w.Sig.String()] = w
				}
				want = make([]*cargen.TxInfo, len(txs))
				for i, x := range txs {
					m, _ := x.(map[string]any)
					for _, w := range b.Txs {
						if vfCheckTxJSON(m, w, enc) == nil {
							want[i] = w
							delete(bySig, w.Sig.String())
							break
						}
					}
					if want[i] == nil {
						return fmt.Errorf("%s: transaction %d matches no archived transaction of the block", where, i)
					}
				}
				if len(bySig) != 0 {
					return fmt.Errorf("%s: %d archived transactions missing from the response", where, len(bySig))
				}
			}
			for i, x := range txs {
				m, _ := x.(map[string]any)
				if err := vfCheckTxJSON(m, want[i], enc); err != nil {
					return fmt.Errorf("%s: transaction %d (archived position %d): %v", where, i, want[i].Pos, err)
				}
			}
			rw, _ := res["rewards"].([]any)
			if (len(rw) > 0) != (b.RewardsRaw != nil) {
				return fmt.Errorf("%s: %d rewards returned, archived rewards present=%v", where, len(rw), b.RewardsRaw != nil)
			}
			if len(b.Txs) >= 2 && len(b.Entries) >= 2 {
				st["multi-entry-block"]++
			}
			// --- gRPC GetBlock ---
			gb, err := l.multi.GetBlock(ctx, &old_faithful_grpc.BlockRequest{Slot: b.Slot})
			if err != nil {
				return fmt.Errorf("gRPC GetBlock(%d) failed: %v", b.Slot, err)
			}
			if err := vfCheckGrpcBlock(gb, ep, b, prev); err != nil {
				return fmt.Errorf("gRPC GetBlock(%d) with %d epochs loaded: %v", b.Slot, len(l.eps), err)
			}
			// --- block time ---
			if b.Slot != 0 {
				r := vfCall(h, "getBlockTime", b.Slot)
				if r.JSON == nil || r.JSON["error"] != nil {
					return fmt.Errorf("getBlockTime(%d) failed: %s", b.Slot, vfh.Short(string(r.Body), 200))
				}
				if b.Blocktime == 0 {
					if r.JSON["result"] != nil {
						return fmt.Errorf("getBlockTime(%d) = %v, none archived", b.Slot, r.JSON["result"])
					}
				} else if f, _ := r.JSON["result"].(float64); int64(f) != b.Blocktime {
					return fmt.Errorf("getBlockTime(%d) = %v, archived %d", b.Slot, r.JSON["result"], b.Blocktime)
				}
				gt, err := l.multi.GetBlockTime(ctx, &old_faithful_grpc.BlockTimeRequest{Slot: b.Slot})
				if err != nil || gt.BlockTime != b.Blocktime {
					return fmt.Errorf("gRPC GetBlockTime(%d) = %v, %v; archived %d", b.Slot, gt, err, b.Blocktime)
				}
			}
		}
		// --- transactions ---
		var streamReqs []*old_faithful_grpc.GetRequest
		for ti, tx := range ep.Txs {
			enc := nextEnc()
			params := []any{tx.Sig.String()}
			if enc != "" {
				params = append(params, map[string]any{"encoding": enc})
			}
			resp := vfCall(h, "getTransaction", params...)
			where := fmt.Sprintf("getTransaction(%s, %q) [slot %d pos %d, %d meta frames] with %d epochs loaded, concurrency %d", tx.Sig, enc, tx.Slot, tx.Pos, tx.MetaFrames, len(l.eps), c.Concurrency)
			if resp.JSON == nil || resp.JSON["error"] != nil {
				return fmt.Errorf("%s failed: %s", where, vfh.Short(string(resp.Body), 300))
			}
			res, _ := resp.JSON["result"].(map[string]any)
			if res == nil {
				return fmt.Errorf("%s: no result object", where)
			}
			if s, _ := res["slot"].(float64); uint64(s) != tx.Slot {
				return fmt.Errorf("%s: slot %v", where, res["slot"])
			}
			if tx.Blocktime != 0 {
				if bt, _ := res["blockTime"].(float64); int64(bt) != tx.Blocktime {
					return fmt.Errorf("%s: blockTime %v, archived %d", where, res["blockTime"], tx.Blocktime)
				}
			}
			if err := vfCheckTxJSON(res, tx, enc); err != nil {
				return fmt.Errorf("%s: %v", where, err)
			}
			if tx.MetaFrames > 1 {
				st["multi-frame-meta"]++
			}
			var gtx *old_faithful_grpc.TransactionResponse
			var err error
			vfWatched(fmt.Sprintf("gRPC GetTransaction(%s) with %d epochs loaded, concurrency %d", tx.Sig, len(l.eps), c.Concurrency), func() {
				gtx, err = l.multi.GetTransaction(ctx, &old_faithful_grpc.TransactionRequest{Signature: tx.Sig[:]})
			})
			if err != nil {
				return fmt.Errorf("gRPC GetTransaction(%s) with %d epochs loaded failed: %v", tx.Sig, len(l.eps), err)
			}
			if err := vfCheckGrpcTx(gtx, ep, tx); err != nil {
				return fmt.Errorf("gRPC GetTransaction(%s): %v", tx.Sig, err)
			}
			if ti%3 == 0 {
				streamReqs = append(streamReqs, &old_faithful_grpc.GetRequest{Id: uint64(ti), Request: &old_faithful_grpc.GetRequest_Transaction{Transaction: &old_faithful_grpc.TransactionRequest{Signature: tx.Sig[:]}}})
			}
		}
		// the same through the bidirectional Get stream
		for bi, b := range ep.Blocks {
			if bi%2 == 0 {
				streamReqs = append(streamReqs, &old_faithful_grpc.GetRequest{Id: 1_000_000 + uint64(bi), Request: &old_faithful_grpc.GetRequest_Block{Block: &old_faithful_grpc.BlockRequest{Slot: b.Slot}}})
			}
		}
		stream := &vfGetStream{ctx: ctx, in: streamReqs}
		var serr error
		vfWatched(fmt.Sprintf("gRPC Get stream of %d requests with %d epochs loaded, concurrency %d", len(streamReqs), len(l.eps), c.Concurrency), func() { serr = l.multi.Get(stream) })
		if err := serr; err != nil {
			return fmt.Errorf("gRPC Get stream failed: %v", err)
		}
		if len(stream.out) != len(streamReqs) {
			return fmt.Errorf("gRPC Get stream: %d responses for %d requests", len(stream.out), len(streamReqs))
		}
		for i, r := range stream.out {
			if r.Id != streamReqs[i].Id {
				return fmt.Errorf("gRPC Get stream: response %d has id %d, request id %d", i, r.Id, streamReqs[i].Id)
			}
			if e := r.GetError(); e != nil {
				return fmt.Errorf("gRPC Get stream: request %d answered with error %v", r.Id, e)
			}
			if r.Id >= 1_000_000 {
				bi := int(r.Id - 1_000_000)
				var prev *cargen.BlockInfo
				if bi > 0 {
					prev = ep.Blocks[bi-1]
				}
				if err := vfCheckGrpcBlock(r.GetBlock(), ep, ep.Blocks[bi], prev); err != nil {
					return fmt.Errorf("gRPC Get stream block %d: %v", ep.Blocks[bi].Slot, err)
				}
			} else if err := vfCheckGrpcTx(r.GetTransaction(), ep, ep.Txs[r.Id]); err != nil {
				return fmt.Errorf("gRPC Get stream transaction: %v", err)
			}
		}
	}
	return nil
}

func vfCheckGrpcTx(r *old_faithful_grpc.TransactionResponse, ep *cargen.Epoch, tx *cargen.TxInfo) error {
	if r == nil || r.Transaction == nil {
		return fmt.Errorf("empty response")
	}
	if r.Slot != tx.Slot {
		return fmt.Errorf("slot %d, archived %d", r.Slot, tx.Slot)
	}
	if r.BlockTime != tx.Blocktime {
		return fmt.Errorf("block time %d, archived %d", r.BlockTime, tx.Blocktime)
	}
	if ep.Spec.TxIndex && (r.Index == nil || *r.Index != uint64(tx.Pos)) {
		return fmt.Errorf("index %v, archived position %d", r.Index, tx.Pos)
	}
	if !bytes.Equal(r.Transaction.Transaction, tx.TxBytes) {
		return fmt.Errorf("transaction payload differs from the archive")
	}
	if !bytes.Equal(r.Transaction.Meta, tx.MetaRaw) {
		return fmt.Errorf("metadata payload (%d bytes) differs from the archived %d bytes", len(r.Transaction.Meta), len(tx.MetaRaw))
	}
	return nil
}

func vfC02opts() cargen.GenOpts {
	o := cargen.DefaultOpts()
	o.AllowEmpty = false // blocks of this property have >= 1 entry (DESIGN.md C02)
	o.EmptyEntries = true
	o.MaxBlocks = 8
	return o
}

func TestVfC02(t *testing.T) {
	run := vfh.Begin("C02", "rpc")
	defer run.End(t)
	run.Require("epochs>=2", "multi-entry-block", "multi-frame-meta", "epoch0-genesis", "prev-in-same-epoch", "epochs>2*concurrency")
	vfArmWatch(run, "C02")
	for _, p := range vfh.ReplayFiles("C02", "rpc") {
		var c vfC02Case
		if err := vfh.LoadCaseFile(p, &c); err != nil {
			t.Fatalf("regress %s: %v", p, err)
		}
		run.SetLast(&c)
		if err, _ := vfh.Catch(func() error { return vfC02eval(&c, map[string]int{}) }); err != nil {
			t.Fatalf("regression case %s: C02 violated: %v", p, err)
		}
		run.Class("regress-replayed")
	}
	opts := vfC02opts()
	rapid.Check(t, func(rt *rapid.T) {
		c := &vfC02Case{}
		// 1..3 epochs, or up to 6 (more epochs than twice the search concurrency: the epoch search then has to queue jobs)
		ne := rapid.OneOf(rapid.IntRange(1, 3), rapid.IntRange(3, 6)).Draw(rt, "epochs")
		used := map[uint64]bool{}
		for i := 0; i < ne; i++ {
			s := cargen.Gen(rt, opts)
			if used[s.Epoch] {
				continue
			}
			used[s.Epoch] = true
			c.Specs = append(c.Specs, s)
		}
		c.Concurrency = rapid.SampledFrom([]int{-1, 0, 1, 2, runtime.NumCPU()}).Draw(rt, "concurrency")
		c.EncSeed = rapid.IntRange(0, 4).Draw(rt, "encSeed")
		run.SetLast(c)
		st := map[string]int{}
		err, panicked := vfh.Catch(func() error { return vfC02eval(c, st) })
		var cls []string
		if st["epochs"] >= 2 {
			cls = append(cls, "epochs>=2")
		}
		for _, k := range []string{"multi-entry-block", "multi-frame-meta", "prev-in-same-epoch"} {
			if st[k] > 0 {
				cls = append(cls, k)
			}
		}
		if used[0] {
			cls = append(cls, "epoch0-genesis")
		}
		cls = append(cls, fmt.Sprintf("concurrency:%d", c.Concurrency))
		if c.Concurrency > 0 && st["epochs"] > 2*c.Concurrency {
			cls = append(cls, "epochs>2*concurrency")
		} else if c.Concurrency > 0 && st["epochs"] > c.Concurrency {
			cls = append(cls, "epochs>concurrency")
		}
		nt := st["epochs"] >= 2 && (st["multi-entry-block"] > 0 || st["multi-frame-meta"] > 0)
		run.Case(c, nt, map[string]any{"epochs": len(c.Specs), "concurrency": c.Concurrency, "stats": st}, cls...)
		if err != nil {
			if panicked {
				rt.Fatalf("C02 violated: handler panicked: %v", err)
			}
			rt.Fatalf("C02 violated: %v", err)
		}
	})
}

func TestVfReplayC02(t *testing.T) {
	var c vfC02Case
	if !vfh.LoadReplay(t, &c) {
		t.Skip("no VERIF_REPLAY")
	}
	vfArmWatch(nil, "C02")
	if err, _ := vfh.Catch(func() error { return vfC02eval(&c, map[string]int{}) }); err != nil {
		t.Fatalf("C02 violated: %v", err)
	}
}
