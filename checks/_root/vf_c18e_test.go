package main

// C18 (epoch search): the same oracle one level up, at
// MultiEpoch.findEpochNumberFromSignature - the caller of the job group that
// the server uses for getTransaction. Five small epochs are loaded; per case a
// subset of them is put into a MultiEpoch with a drawn search concurrency, and
// each epoch's signature-existence index is replaced by a gated stand-in whose
// answer (present / absent / I/O error) and completion order the harness owns.
// The epoch that really archives the signature keeps its real sig-to-cid index.

import (
	"context"
	"errors"
	"fmt"
	"path/filepath"
	"runtime"
	"sort"
	"sync"
	"testing"
	"time"

	"github.com/rpcpool/yellowstone-faithful/zz_verif/cargen"
	"github.com/rpcpool/yellowstone-faithful/zz_verif/vfh"
	"pgregory.net/rapid"
)

type vfC18ECase struct {
	Epochs   []int // indexes into the world's epochs (ascending epoch numbers), 2..5 of them
	Outcomes []int // per chosen epoch: 0 the signature is archived here (at most one), 1 sig-exists fails with an I/O error, 2 absent, 3 sig-exists fails with a timeout of its own (an error wrapping context.DeadlineExceeded; the request context stays live)
	Limit    int   // EpochSearchConcurrency
	Order    []int // completion order over job indexes (jobs are started newest epoch first)
	Tx       int   // which transaction of the archiving epoch (or of an epoch that is not loaded, when no outcome is 0)
}

type vfC18EWorld struct {
	gens []*cargen.Epoch
	objs []*Epoch
}

var (
	vfC18EOnce  sync.Once
	vfC18EW     *vfC18EWorld
	vfC18EErr   error
	errVfC18EIO = errors.New("injected: input/output error")
)

func vfC18Esetup() (*vfC18EWorld, error) {
	vfC18EOnce.Do(func() {
		w := &vfC18EWorld{}
		dir := vfh.TmpDir("c18e")
		specs := vfC08specs()
		cache := vfNewCache()
		for i := 0; i < 6; i++ {
			s := *specs[i%len(specs)]
			s.Epoch = uint64(2 + i)
			s.Seed = 500 + uint64(i)
			s.TxIndex = true
			ep, err := cargen.Build(&s)
			if err != nil {
				vfC18EErr = err
				return
			}
			env, err := vfBuildEpoch(filepath.Join(dir, fmt.Sprintf("e%d", s.Epoch)), ep, vfBuildOpts{})
			if err != nil {
				vfC18EErr = err
				return
			}
			obj, err := env.Load(cache)
			if err != nil {
				vfC18EErr = err
				return
			}
			w.gens = append(w.gens, ep)
			w.objs = append(w.objs, obj)
		}
		vfC18EW = w
	})
	return vfC18EW, vfC18EErr
}

type vfC18EGate struct {
	started, gate, done chan struct{}
	outcome             int
	once                sync.Once
}

func (g *vfC18EGate) Has(sig [64]byte) (bool, error) {
	g.once.Do(func() { close(g.started) })
	<-g.gate
	defer func() {
		select {
		case <-g.done:
		default:
			close(g.done)
		}
	}()
	switch g.outcome {
	case 0:
		return true, nil
	case 1:
		return false, errVfC18EIO
	case 3:
		return false, fmt.Errorf("remote sig-exists read: %w", context.DeadlineExceeded)
	}
	return false, nil
}

func vfC18Eeval(w *vfC18EWorld, c *vfC18ECase) error {
	n := len(c.Epochs)
	// jobs are created newest epoch first
	idx := append([]int{}, c.Epochs...)
	sort.Sort(sort.Reverse(sort.IntSlice(idx)))
	outcomeOf := map[int]int{}
	for i, e := range c.Epochs {
		outcomeOf[e] = c.Outcomes[i]
	}
	m := NewMultiEpoch(&Options{EpochSearchConcurrency: c.Limit})
	gates := make([]*vfC18EGate, n)
	hit := -1
	for j, e := range idx {
		g := &vfC18EGate{started: make(chan struct{}), gate: make(chan struct{}), done: make(chan struct{}), outcome: outcomeOf[e]}
		gates[j] = g
		obj := w.objs[e]
		saved := obj.sigExists
		obj.sigExists = g
		defer func() { obj.sigExists = saved }()
		if err := m.AddEpoch(obj.Epoch(), obj); err != nil {
			return fmt.Errorf("harness: %v", err)
		}
		if g.outcome == 0 {
			hit = e
		}
	}
	// the signature: archived in the hit epoch, or in the one world epoch that is never loaded (absent everywhere)
	src := w.gens[len(w.gens)-1]
	if hit >= 0 {
		src = w.gens[hit]
	}
	sig := src.Txs[c.Tx%len(src.Txs)].Sig
	base := runtime.NumGoroutine()
	type res struct {
		ep  uint64
		err error
	}
	resCh := make(chan res, 1)
	go func() {
		ep, err := m.findEpochNumberFromSignature(context.Background(), sig)
		resCh <- res{ep, err}
	}()
	opened := make([]bool, n)
	for _, j := range c.Order {
		deviated := false
		select {
		case <-gates[j].started:
		case <-time.After(3 * time.Second):
			deviated = true // not started although feasible: release everything, the oracle holds for every order
		}
		if deviated {
			break
		}
		close(gates[j].gate)
		opened[j] = true
		select {
		case <-gates[j].done:
		case <-time.After(10 * time.Second):
			return fmt.Errorf("the search of epoch %d did not finish after its sig-exists lookup was released", w.objs[idx[j]].Epoch())
		}
		for k := 0; k < 4; k++ {
			runtime.Gosched()
		}
	}
	for j := 0; j < n; j++ {
		if !opened[j] {
			close(gates[j].gate)
		}
	}
	var r res
	select {
	case r = <-resCh:
	case <-time.After(30 * time.Second):
		return fmt.Errorf("epoch search did not terminate within 30s after every lookup was released (epochs %v outcomes %v limit %d order %v)", c.Epochs, c.Outcomes, c.Limit, c.Order)
	}
	desc := fmt.Sprintf("epochs %v (jobs newest first) outcomes %v limit %d completion order %v", c.Epochs, c.Outcomes, c.Limit, c.Order)
	if hit >= 0 {
		want := w.objs[hit].Epoch()
		if r.err != nil {
			return fmt.Errorf("%s: the signature is archived in epoch %d and that epoch's search succeeds, but the search returned error %v", desc, want, r.err)
		}
		if r.ep != want {
			return fmt.Errorf("%s: search returned epoch %d, the signature is archived in epoch %d", desc, r.ep, want)
		}
	} else {
		if r.err == nil {
			return fmt.Errorf("%s: no epoch has the signature but the search reported epoch %d", desc, r.ep)
		}
		allAbsent := true
		for _, o := range c.Outcomes {
			if o != 2 {
				allAbsent = false
			}
		}
		if allAbsent != errors.Is(r.err, ErrNotFound) {
			return fmt.Errorf("%s: classification of the failure is wrong (all absent=%v, error %v)", desc, allAbsent, r.err)
		}
	}
	deadline := time.Now().Add(5 * time.Second)
	for runtime.NumGoroutine() > base {
		if time.Now().After(deadline) {
			return fmt.Errorf("%s: %d goroutine(s) of the search are still alive 5s after it returned", desc, runtime.NumGoroutine()-base)
		}
		time.Sleep(200 * time.Microsecond)
	}
	return nil
}

func TestVfC18Epochs(t *testing.T) {
	run := vfh.Begin("C18", "epoch-search")
	defer run.End(t)
	w, err := vfC18Esetup()
	if err != nil {
		t.Fatalf("harness: %v", err)
	}
	run.Require("hit-with-io-error-elsewhere", "no-hit-all-absent", "no-hit-with-io-error", "limit=1", "limit=-1")
	for _, p := range vfh.ReplayFiles("C18", "epoch-search") {
		var c vfC18ECase
		if err := vfh.LoadCaseFile(p, &c); err != nil {
			t.Fatalf("regress %s: %v", p, err)
		}
		run.SetLast(&c)
		if err := vfC18Eeval(w, &c); err != nil {
			t.Fatalf("regression case %s: C18 violated: %v", filepath.Base(p), err)
		}
		run.Class("regress-replayed")
	}
	rapid.Check(t, func(rt *rapid.T) {
		c := &vfC18ECase{}
		c.Epochs = rapid.SliceOfNDistinct(rapid.IntRange(0, 4), 2, 5, rapid.ID[int]).Draw(rt, "epochs")
		sort.Ints(c.Epochs)
		n := len(c.Epochs)
		hitAt := rapid.IntRange(-1, n-1).Draw(rt, "hit")
		nerr := 0
		for i := 0; i < n; i++ {
			o := rapid.SampledFrom([]int{1, 2, 2, 3}).Draw(rt, "outcome")
			if i == hitAt {
				o = 0
			}
			if o == 1 || o == 3 {
				nerr++
			}
			c.Outcomes = append(c.Outcomes, o)
		}
		c.Limit = rapid.SampledFrom([]int{-1, 0, 1, 1, 2, 3, n, 16}).Draw(rt, "limit")
		c.Tx = rapid.IntRange(0, 100).Draw(rt, "tx")
		limit := c.Limit
		if limit <= 0 || limit > n {
			limit = n
		}
		doneSet := make([]bool, n)
		for completed := 0; completed < n; completed++ {
			upTo := min(completed+limit, n)
			var cand []int
			for j := 0; j < upTo; j++ {
				if !doneSet[j] {
					cand = append(cand, j)
				}
			}
			j := rapid.SampledFrom(cand).Draw(rt, "next")
			doneSet[j] = true
			c.Order = append(c.Order, j)
		}
		run.SetLast(c)
		cls := []string{fmt.Sprintf("limit=%d", c.Limit), fmt.Sprintf("n=%d", n)}
		switch {
		case hitAt >= 0 && nerr > 0:
			cls = append(cls, "hit-with-io-error-elsewhere")
		case hitAt < 0 && nerr == 0:
			cls = append(cls, "no-hit-all-absent")
		case hitAt < 0:
			cls = append(cls, "no-hit-with-io-error")
		}
		run.Case(c, hitAt >= 0 && nerr > 0, c, cls...)
		if err := vfC18Eeval(w, c); err != nil {
			rt.Fatalf("C18 violated: %v", err)
		}
	})
}

func TestVfReplayC18Epochs(t *testing.T) {
	var c vfC18ECase
	if !vfh.LoadReplay(t, &c) {
		t.Skip("no VERIF_REPLAY")
	}
	w, err := vfC18Esetup()
	if err != nil {
		t.Fatalf("harness: %v", err)
	}
	for i := 0; i < 20; i++ {
		if err := vfC18Eeval(w, &c); err != nil {
			t.Fatalf("C18 violated: %v", err)
		}
	}
}
