package main

// C12: parsers of external data return errors, never crash, loop forever or
// allocate out of proportion to the input, on arbitrary bytes.
// rapid structure-aware mutation of valid files + (thorough) native fuzzing.

import (
	"bufio"
	"bytes"
	"context"
	"encoding/binary"
	"errors"
	"fmt"
	"io"
	"os"
	"path/filepath"
	"runtime"
	"sort"
	"strings"
	"sync"
	"testing"
	"time"

	"github.com/ipfs/go-cid"
	"github.com/klauspost/compress/zstd"
	"github.com/rpcpool/yellowstone-faithful/blocktimeindex"
	"github.com/rpcpool/yellowstone-faithful/bucketteer"
	"github.com/rpcpool/yellowstone-faithful/carreader"
	"github.com/rpcpool/yellowstone-faithful/compactindexsized"
	deprecatedbucketteer "github.com/rpcpool/yellowstone-faithful/deprecated/bucketteer"
	"github.com/rpcpool/yellowstone-faithful/deprecated/compactindex"
	"github.com/rpcpool/yellowstone-faithful/deprecated/compactindex36"
	"github.com/rpcpool/yellowstone-faithful/gsfa"
	"github.com/rpcpool/yellowstone-faithful/gsfa/linkedlog"
	"github.com/rpcpool/yellowstone-faithful/gsfa/manifest"
	"github.com/rpcpool/yellowstone-faithful/indexes"
	"github.com/rpcpool/yellowstone-faithful/indexmeta"
	"github.com/rpcpool/yellowstone-faithful/ipld/ipldbindcode"
	"github.com/rpcpool/yellowstone-faithful/iplddecoders"
	metalatest "github.com/rpcpool/yellowstone-faithful/parse_legacy_transaction_status_meta/v-latest"
	metaoldest "github.com/rpcpool/yellowstone-faithful/parse_legacy_transaction_status_meta/v-oldest"
	solanatxmetaparsers "github.com/rpcpool/yellowstone-faithful/solana-tx-meta-parsers"
	"github.com/rpcpool/yellowstone-faithful/tooling"
	"github.com/rpcpool/yellowstone-faithful/zz_verif/cargen"
	"github.com/rpcpool/yellowstone-faithful/zz_verif/vfh"
	"pgregory.net/rapid"
)

type vfC12Case struct {
	Target string
	Data   []byte
	How    string
}

// a target parses data; it returns whether the input got past the first validation stage
type vfC12Target struct {
	varints func(w *vfC12World, seed []byte) []int // offsets of length varints in a valid seed
	fields  [][2]int                               // {offset, width} of little-endian integer header fields of the format
	cidx    bool                                   // the input is a compact index file (header with key/value metadata)
	llog    bool                                   // the input is an address-index log (records of zstd-compressed entry lists)
	name    string
	seeds   func(w *vfC12World) [][]byte
	run     func(w *vfC12World, data []byte) (deep bool)
	cbor    bool
}

type vfC12World struct {
	dir    string
	ep     *cargen.Epoch
	env    *vfEpochEnv
	files  map[string][]byte
	nodes  map[int][][]byte // kind -> encoded nodes
	metas  [][]byte
	txs    [][]byte
	sample [64]byte
	// allocation budget of the call in progress (see step)
	allocBase uint64
	allocErr  string
	allocMax  uint64
	inLen     int
}

// step closes the allocation budget of the entry-point call that just returned and opens the next one: a target
// that drives several independent entry points with the same input gives each of them its own budget (the budget
// is per call of the server into the parser, not per harness target). limit 0 = the default 64 MiB + 256 x input.
func (w *vfC12World) step(label string, limit uint64) {
	var ms runtime.MemStats
	runtime.ReadMemStats(&ms)
	d := ms.TotalAlloc - w.allocBase
	w.allocBase = ms.TotalAlloc
	if d > w.allocMax {
		w.allocMax = d
	}
	bound := "64 MiB + 256 x input"
	if limit == 0 {
		limit = uint64(64<<20) + 256*uint64(w.inLen)
	} else {
		bound = fmt.Sprintf("%d KiB for this call", limit>>10)
	}
	if d > limit && w.allocErr == "" {
		w.allocErr = fmt.Sprintf("%s allocated %d MiB while handling a %d-byte input (bound: %s)", label, d>>20, w.inLen, bound)
	}
}

type vfRAC struct{ b []byte }

func (m *vfRAC) ReadAt(p []byte, off int64) (int, error) { return bytes.NewReader(m.b).ReadAt(p, off) }
func (m *vfRAC) Close() error                            { return nil }

var (
	vfC12once  sync.Once
	vfC12world *vfC12World
	vfC12err   error
)

func vfC12setup() (*vfC12World, error) {
	vfC12once.Do(func() {
		w := &vfC12World{dir: vfh.TmpDir("c12"), files: map[string][]byte{}, nodes: map[int][][]byte{}}
		spec := vfC08specs()[2]
		// one transaction with many frames and a wide fan-out (next lists of up to 10 links)
		spec.Blocks[0].Entries[0].Txs[0].MetaSize = 3000
		spec.Blocks[0].Entries[0].Txs[0].MetaFrames = 23
		spec.Blocks[0].Entries[0].Txs[0].Fanout = 10
		ep, err := cargen.Build(spec)
		if err != nil {
			vfC12err = err
			return
		}
		env, err := vfBuildEpoch(filepath.Join(w.dir, "e"), ep, vfBuildOpts{Gsfa: true})
		if err != nil {
			vfC12err = err
			return
		}
		w.ep, w.env = ep, env
		for name, p := range map[string]string{
			"cid": env.Paths.CidToOffsetAndSize, "slot": env.Paths.SlotToCid, "sig": env.Paths.SignatureToCid, "sigexists": env.Paths.SignatureExists,
			"blocktime": env.Paths.SlotToBlocktime, "linkedlog": filepath.Join(env.GsfaDir, "linked-log"), "manifest": filepath.Join(env.GsfaDir, "manifest"),
			"pubkey": filepath.Join(env.GsfaDir, string(indexes.Kind_PubkeyToOffsetAndSize)+".index"), "car": env.CarPath,
		} {
			b, err := os.ReadFile(p)
			if err != nil {
				vfC12err = err
				return
			}
			w.files[name] = b
		}
		for i := range ep.Objects {
			o := &ep.Objects[i]
			if len(w.nodes[o.Kind]) < 6 || (o.Kind == 6 && len(w.nodes[o.Kind]) < 30) {
				w.nodes[o.Kind] = append(w.nodes[o.Kind], o.Data)
			}
		}
		for i, t := range ep.Txs {
			if i < 6 {
				w.txs = append(w.txs, t.TxBytes)
				if t.MetaRaw != nil {
					w.metas = append(w.metas, t.MetaRaw)
				}
			}
		}
		copy(w.sample[:], ep.Txs[0].Sig[:])
		// transaction-status metadata in the two legacy (bincode) layouts the server still parses
		{
			inner := []metalatest.InnerInstructions{{Index: 1, Instructions: []metalatest.CompiledInstruction{{ProgramIdIndex: 2}}}}
			for _, m := range []metalatest.TransactionStatusMeta{
				{Status: &metalatest.Result__Ok{}, Fee: 5000, PreBalances: []uint64{1, 2, 3}, PostBalances: []uint64{1, 2, 3}},
				{Status: &metalatest.Result__Ok{}, Fee: 1 << 40, PreBalances: []uint64{9}, PostBalances: []uint64{9}, InnerInstructions: &inner},
			} {
				if b, err := m.BincodeSerialize(); err == nil {
					w.metas = append(w.metas, b)
				}
			}
			mo := metaoldest.TransactionStatusMeta{Status: &metaoldest.Result__Ok{}, Fee: 5000, PreBalances: []uint64{4, 5}, PostBalances: []uint64{4, 5}}
			if b, err := mo.BincodeSerialize(); err == nil {
				w.metas = append(w.metas, b)
			}
		}
		// legacy formats
		{
			lp := filepath.Join(w.dir, "legacy-sigexists")
			lw, _ := deprecatedbucketteer.NewWriter(lp)
			for _, t := range ep.Txs {
				lw.Put(t.Sig)
			}
			lw.Seal(map[string]string{"a": "b"})
			lw.Close()
			w.files["sigexists-legacy"], _ = os.ReadFile(lp)
			for _, kind := range []string{"legacy8", "legacy36"} {
				tmp := filepath.Join(w.dir, "tmp-"+kind)
				os.MkdirAll(tmp, 0o755)
				fp := filepath.Join(w.dir, kind)
				f, _ := os.Create(fp)
				if kind == "legacy8" {
					b, _ := compactindex.NewBuilder(tmp, 20, 1<<30)
					for i := 0; i < 20; i++ {
						b.Insert([]byte{byte(i), 1, 2}, uint64(i*1000))
					}
					b.Seal(context.Background(), f)
					b.Close()
				} else {
					b, _ := compactindex36.NewBuilder(tmp, 20, 1<<30)
					for i := 0; i < 20; i++ {
						var v [36]byte
						v[0] = byte(i)
						b.Insert([]byte{byte(i), 1, 2}, v)
					}
					b.Seal(context.Background(), f)
					b.Close()
				}
				f.Close()
				w.files[kind], _ = os.ReadFile(fp)
			}
		}
		vfC12world = w
	})
	return vfC12world, vfC12err
}

func vfCompactQuery(data []byte) bool {
	db, err := compactindexsized.Open(bytes.NewReader(data))
	if err != nil {
		return false
	}
	db.Lookup([]byte{1, 2, 3})
	db.Lookup(bytes.Repeat([]byte{7}, 64))
	db.Prefetch(true) // remote indexes are opened with prefetching
	db.Lookup([]byte{1, 2, 3})
	db.GetBucket(0)
	db.GetKind()
	return true
}

func vfNodeSeeds(kinds ...int) func(w *vfC12World) [][]byte {
	return func(w *vfC12World) [][]byte {
		var out [][]byte
		for _, k := range kinds {
			out = append(out, w.nodes[k]...)
		}
		return out
	}
}

func vfFileSeed(names ...string) func(w *vfC12World) [][]byte {
	return func(w *vfC12World) [][]byte {
		var out [][]byte
		for _, n := range names {
			out = append(out, w.files[n])
		}
		return out
	}
}

var vfC12Targets = []vfC12Target{
	{name: "decode-epoch", cbor: true, seeds: vfNodeSeeds(4), run: func(w *vfC12World, d []byte) bool { _, err := iplddecoders.DecodeEpoch(d); return err == nil }},
	{name: "decode-subset", cbor: true, seeds: vfNodeSeeds(3), run: func(w *vfC12World, d []byte) bool { _, err := iplddecoders.DecodeSubset(d); return err == nil }},
	{name: "decode-block", cbor: true, seeds: vfNodeSeeds(2), run: func(w *vfC12World, d []byte) bool { _, err := iplddecoders.DecodeBlock(d); return err == nil }},
	{name: "decode-entry", cbor: true, seeds: vfNodeSeeds(1), run: func(w *vfC12World, d []byte) bool { _, err := iplddecoders.DecodeEntry(d); return err == nil }},
	{name: "decode-transaction", cbor: true, seeds: vfNodeSeeds(0), run: func(w *vfC12World, d []byte) bool {
		tx, err := iplddecoders.DecodeTransaction(d)
		if err == nil {
			tx.Signature()
			tx.GetSolanaTransaction()
		}
		return err == nil
	}},
	{name: "decode-rewards", cbor: true, seeds: vfNodeSeeds(5), run: func(w *vfC12World, d []byte) bool { _, err := iplddecoders.DecodeRewards(d); return err == nil }},
	{name: "decode-dataframe", cbor: true, seeds: vfNodeSeeds(6), run: func(w *vfC12World, d []byte) bool { _, err := iplddecoders.DecodeDataFrame(d); return err == nil }},
	{name: "decode-any", cbor: true, seeds: vfNodeSeeds(0, 1, 2, 3, 4, 5, 6), run: func(w *vfC12World, d []byte) bool { _, err := iplddecoders.DecodeAny(d); return err == nil }},
	{name: "dataframes-load", cbor: true, seeds: vfNodeSeeds(6, 0), run: func(w *vfC12World, d []byte) bool {
		// the fuzzed bytes are the frame every link resolves to (self links and cycles included)
		first, err := iplddecoders.DecodeDataFrame(d)
		if err != nil {
			tx, err2 := iplddecoders.DecodeTransaction(d)
			if err2 != nil {
				return false
			}
			first = &tx.Metadata
		}
		depth := 0
		tooling.LoadDataFromDataFrames(first, func(ctx context.Context, c cid.Cid) (*ipldbindcode.DataFrame, error) {
			depth++
			if depth > 200 {
				return nil, fmt.Errorf("getter refuses: too many fetches")
			}
			return iplddecoders.DecodeDataFrame(d)
		})
		return true
	}},
	{name: "carreader", seeds: vfFileSeed("car"), varints: func(w *vfC12World, seed []byte) []int {
		out := []int{0}
		for i := range w.ep.Objects {
			out = append(out, int(w.ep.Objects[i].Offset))
		}
		return out
	}, run: func(w *vfC12World, d []byte) bool {
		rd, err := carreader.New(io.NopCloser(bytes.NewReader(d)))
		if err != nil {
			return false
		}
		rd.HeaderSize()
		for i := 0; i < 10000; i++ {
			if _, _, _, err := rd.NextNodeBytes(); err != nil {
				break
			}
		}
		rd2, err := carreader.New(io.NopCloser(bytes.NewReader(d)))
		if err == nil {
			for i := 0; i < 10000; i++ {
				if _, _, err := rd2.NextInfo(); err != nil {
					break
				}
			}
		}
		return true
	}},
	{name: "car-section", seeds: func(w *vfC12World) [][]byte {
		var out [][]byte
		for i := 0; i < len(w.ep.Objects) && i < 8; i++ {
			o := w.ep.Objects[i]
			out = append(out, w.files["car"][o.Offset:o.Offset+o.SectionLen])
		}
		return out
	}, varints: func(w *vfC12World, seed []byte) []int { return []int{0} }, run: func(w *vfC12World, d []byte) bool {
		_, err := parseNodeFromSection(d, nil)
		w.step("parseNodeFromSection", 0)
		c := w.ep.Objects[0].Cid
		parseNodeFromSection(d, &c)
		w.step("parseNodeFromSection (with the wanted CID)", 0)
		readNodeWithKnownSize(bufio.NewReader(bytes.NewReader(d)), nil, uint64(len(d)))
		w.step("readNodeWithKnownSize", 0)
		readNodeSizeFromReaderAtWithOffset(&vfRAC{d}, 0)
		return err == nil
	}},
	{name: "compactindexsized", cidx: true, seeds: vfFileSeed("cid", "slot", "sig", "pubkey"), run: func(w *vfC12World, d []byte) bool { return vfCompactQuery(d) }},
	{name: "compactindex-legacy8", seeds: vfFileSeed("legacy8"), run: func(w *vfC12World, d []byte) bool {
		db, err := compactindex.Open(bytes.NewReader(d))
		if err != nil {
			return false
		}
		db.Lookup([]byte{1, 1, 2})
		db.Prefetch(true)
		db.Lookup([]byte{1, 1, 2})
		return true
	}},
	{name: "compactindex-legacy36", seeds: vfFileSeed("legacy36"), run: func(w *vfC12World, d []byte) bool {
		db, err := compactindex36.Open(bytes.NewReader(d))
		if err != nil {
			return false
		}
		db.Lookup([]byte{1, 1, 2})
		db.Prefetch(true)
		db.Lookup([]byte{1, 1, 2})
		return true
	}},
	{name: "typed-indexes", cidx: true, seeds: vfFileSeed("cid", "slot", "sig", "pubkey", "legacy36"), run: func(w *vfC12World, d []byte) bool {
		deep := false
		if r, err := indexes.OpenWithReader_CidToOffsetAndSize(&vfRAC{d}); err == nil {
			deep = true
			r.Get(w.ep.Objects[0].Cid)
			r.Meta()
		}
		if r, err := indexes.OpenWithReader_SlotToCid(&vfRAC{d}); err == nil {
			deep = true
			r.Get(w.ep.Blocks[0].Slot)
		}
		if r, err := indexes.OpenWithReader_SigToCid(&vfRAC{d}); err == nil {
			deep = true
			r.Get(w.ep.Txs[0].Sig)
		}
		if r, err := indexes.OpenWithReader_PubkeyToOffsetAndSize(&vfRAC{d}); err == nil {
			deep = true
			r.Get(w.ep.Txs[0].Static[0])
		}
		if r, err := indexes.Deprecated_OpenWithReader_CidToOffset(&vfRAC{d}); err == nil {
			deep = true
			r.Get(w.ep.Objects[0].Cid)
		}
		return deep
	}},
	{name: "indexmeta", seeds: func(w *vfC12World) [][]byte {
		var m indexmeta.Meta
		m.AddUint64(indexmeta.MetadataKey_Epoch, 7)
		m.AddCid(indexmeta.MetadataKey_RootCid, w.ep.Root)
		m.AddString(indexmeta.MetadataKey_Network, "mainnet")
		return [][]byte{m.Bytes()}
	}, run: func(w *vfC12World, d []byte) bool {
		var m indexmeta.Meta
		if err := m.UnmarshalBinary(d); err != nil {
			return false
		}
		m.GetUint64(indexmeta.MetadataKey_Epoch)
		m.GetCid(indexmeta.MetadataKey_RootCid)
		m.GetString(indexmeta.MetadataKey_Network)
		m.Bytes()
		return true
	}},
	{name: "sig-exists", seeds: vfFileSeed("sigexists"), run: func(w *vfC12World, d []byte) bool {
		r, err := bucketteer.NewReader(&vfRAC{d})
		if err != nil {
			return false
		}
		r.Has(w.sample)
		r.Has([64]byte{})
		r.Meta().GetUint64(indexmeta.MetadataKey_Epoch)
		r.Meta().GetCid(indexmeta.MetadataKey_RootCid)
		return true
	}},
	{name: "sig-exists-legacy", seeds: vfFileSeed("sigexists-legacy"), run: func(w *vfC12World, d []byte) bool {
		r, err := deprecatedbucketteer.NewReader(&vfRAC{d})
		if err != nil {
			return false
		}
		r.Has(w.sample)
		return true
	}},
	{name: "blocktimeindex", seeds: vfFileSeed("blocktime"), fields: [][2]int{{14, 8}, {22, 8}, {30, 8}, {38, 8}}, run: func(w *vfC12World, d []byte) bool {
		idx, err := blocktimeindex.FromBytes(d)
		if err != nil {
			return false
		}
		// what the server asks of a loaded index: any slot of the epoch it says it covers
		first := idx.Epoch() * cargen.SlotsPerEpoch
		for _, s := range []uint64{w.ep.Blocks[0].Slot, w.ep.Blocks[len(w.ep.Blocks)-1].Slot, first, first + 1, first + cargen.SlotsPerEpoch/2, first + cargen.SlotsPerEpoch - 2, first + cargen.SlotsPerEpoch - 1} {
			idx.Get(s)
		}
		return true
	}},
	{name: "linkedlog", llog: true, seeds: vfFileSeed("linkedlog"), varints: func(w *vfC12World, seed []byte) []int { return []int{0} }, run: func(w *vfC12World, d []byte) bool {
		p := filepath.Join(w.dir, fmt.Sprintf("ll-%d", time.Now().UnixNano()))
		os.WriteFile(p, d, 0o644)
		defer os.Remove(p)
		ll, err := linkedlog.NewLinkedLog(p)
		if err != nil {
			return false
		}
		defer ll.Close()
		ll.Read(0)
		ll.ReadWithSize(0, uint64(len(d)))
		// records that (according to a corrupt previous-record pointer or index entry: 6-byte offset, 3-byte size)
		// start at / beyond the end of the log: nothing can be read, so nothing of the declared size may be allocated
		w.step("opening and reading the log", 0)
		for _, off := range []uint64{uint64(len(d)), uint64(len(d)) + 1, uint64(len(d)) + 9, uint64(len(d)) + 1000, 1 << 32, 1<<48 - 1} {
			ll.ReadWithSize(off, 1<<24-1)
			w.step(fmt.Sprintf("ReadWithSize(offset %d beyond the %d-byte log, size 16 MiB)", off, len(d)), 1<<20)
		}
		for _, sz := range []uint64{0, 1, 5, 9, 10, 11, 128, 1 << 20} {
			ll.ReadWithSize(0, sz)
			ll.ReadWithSize(3, sz)
		}
		return true
	}},
	{name: "gsfa-dir", cidx: true, seeds: vfFileSeed("linkedlog", "manifest", "pubkey"), run: func(w *vfC12World, d []byte) bool {
		deep := false
		for _, fname := range []string{"linked-log", "manifest", string(indexes.Kind_PubkeyToOffsetAndSize) + ".index"} {
			tdir := filepath.Join(w.dir, "gsfa-fuzz")
			os.RemoveAll(tdir)
			if vfCopyDir(w.env.GsfaDir, tdir) != nil {
				continue
			}
			os.WriteFile(filepath.Join(tdir, fname), d, 0o644)
			r, err := gsfa.NewGsfaReader(tdir)
			if err != nil {
				continue
			}
			deep = true
			r.Get(context.Background(), w.ep.Txs[0].Static[0], 100)
			r.Meta()
			r.Version()
			r.Close()
		}
		return deep
	}},
	{name: "manifest", seeds: func(w *vfC12World) [][]byte {
		out := [][]byte{w.files["manifest"]}
		// manifests written by the real writer with the largest metadata the format allows (255 pairs) and one less
		for _, n := range []int{254, 255} {
			var m indexmeta.Meta
			for i := 0; i < n; i++ {
				m.Add([]byte{byte(i)}, []byte{byte(i), 1})
			}
			p := filepath.Join(w.dir, fmt.Sprintf("mf-seed-%d", n))
			os.Remove(p)
			if mf, err := manifest.NewManifest(p, m); err == nil {
				mf.Close()
				if b, err := os.ReadFile(p); err == nil {
					out = append(out, b)
				}
			}
		}
		return out
	}, run: func(w *vfC12World, d []byte) bool {
		p := filepath.Join(w.dir, fmt.Sprintf("mf-%d", time.Now().UnixNano()))
		os.WriteFile(p, d, 0o644)
		defer os.Remove(p)
		m, err := manifest.NewManifest(p, indexmeta.Meta{})
		if err != nil {
			return false
		}
		m.Meta()
		m.Version()
		m.Close()
		return true
	}},
	{name: "tx-meta", seeds: func(w *vfC12World) [][]byte { return w.metas }, run: func(w *vfC12World, d []byte) bool {
		_, err := solanatxmetaparsers.ParseAnyTransactionStatusMeta(d)
		w.step("ParseAnyTransactionStatusMeta", 0)
		solanatxmetaparsers.ParseTransactionStatusMetaContainer(d)
		return err == nil
	}},
	{name: "first-signature", seeds: func(w *vfC12World) [][]byte { return w.txs }, run: func(w *vfC12World, d []byte) bool {
		_, err := readFirstSignature(d)
		return err == nil
	}},
}

// CBOR item heads of a (valid) dag-cbor node: offsets of the head byte of every item
func vfCborHeads(d []byte) []int {
	var heads []int
	var walk func(pos int, depth int) int
	walk = func(pos int, depth int) int {
		if pos >= len(d) || depth > 20 || len(heads) > 4000 {
			return len(d)
		}
		heads = append(heads, pos)
		major, info := d[pos]>>5, d[pos]&0x1f
		pos++
		var n uint64
		switch {
		case info < 24:
			n = uint64(info)
		case info == 24:
			if pos+1 > len(d) {
				return len(d)
			}
			n = uint64(d[pos])
			pos++
		case info == 25:
			if pos+2 > len(d) {
				return len(d)
			}
			n = uint64(binary.BigEndian.Uint16(d[pos:]))
			pos += 2
		case info == 26:
			if pos+4 > len(d) {
				return len(d)
			}
			n = uint64(binary.BigEndian.Uint32(d[pos:]))
			pos += 4
		case info == 27:
			if pos+8 > len(d) {
				return len(d)
			}
			n = binary.BigEndian.Uint64(d[pos:])
			pos += 8
		default:
			return pos
		}
		switch major {
		case 2, 3:
			if n > uint64(len(d)) {
				return len(d)
			}
			return pos + int(n)
		case 4:
			for i := uint64(0); i < n && pos < len(d); i++ {
				pos = walk(pos, depth+1)
			}
		case 5:
			for i := uint64(0); i < 2*n && pos < len(d); i++ {
				pos = walk(pos, depth+1)
			}
		case 6:
			pos = walk(pos, depth+1)
		}
		return pos
	}
	walk(0, 0)
	return heads
}

var vfHostile64 = []uint64{0, 1, 2, 8, 9, 11, 12, 13, 24, 127, 128, 255, 256, 65535, 65536, 1<<24 - 1, 1 << 24, 1<<31 - 1, 1 << 31, 1<<32 - 1, 1 << 32, 1<<40 + 7, 1<<63 - 1, 1 << 63, ^uint64(0)}
var vfCborHeadBytes = []byte{0x00, 0x17, 0x18, 0x19, 0x1a, 0x1b, 0x20, 0x3b, 0x40, 0x41, 0x58, 0x5a, 0x5b, 0x5f, 0x60, 0x7b, 0x80, 0x81, 0x83, 0x86, 0x98, 0x9a, 0x9b, 0x9f, 0xa0, 0xa1, 0xbb, 0xc0, 0xd8, 0xdb, 0xf4, 0xf6, 0xf7, 0xf9, 0xfb, 0xff}

// vfC12mutate derives a hostile input from a valid seed.
func vfC12mutate(t *rapid.T, tg *vfC12Target, seed []byte) ([]byte, string) {
	d := append([]byte{}, seed...)
	how := rapid.SampledFrom([]string{"field", "field", "field2", "truncate", "cbor-head", "cbor-head", "flip", "random", "extend", "empty-or-tiny", "valid", "varint", "cbor-int", "cbor-len", "nudge", "nudge", "meta"}).Draw(t, "how")
	if how == "meta" && tg.llog {
		how = "ll-payload"
	}
	if how == "meta" && !tg.cidx {
		how = "nudge"
	}
	if !tg.cbor && (how == "cbor-int" || how == "cbor-len") {
		how = "field"
	}
	if !tg.cbor && how == "cbor-head" {
		how = "field"
	}
	if how == "varint" && tg.varints == nil {
		how = "field2"
	}
	pos := func(label string) int {
		if len(d) == 0 {
			return 0
		}
		switch rapid.IntRange(0, 3).Draw(t, label+"Where") {
		case 0, 1:
			lim := 64
			if len(d) < lim {
				lim = len(d)
			}
			return rapid.IntRange(0, lim-1).Draw(t, label)
		case 2:
			return rapid.IntRange(0, len(d)-1).Draw(t, label+"Any")
		}
		lim := 4096
		if len(d) < lim {
			lim = len(d)
		}
		return rapid.IntRange(0, lim-1).Draw(t, label+"Head")
	}
	setField := func(label string) {
		if len(d) == 0 {
			return
		}
		p := pos(label)
		width := rapid.SampledFrom([]int{1, 2, 3, 4, 6, 8}).Draw(t, label+"Width")
		v := rapid.SampledFrom(append(append([]uint64{}, vfHostile64...), uint64(len(d)), uint64(len(d))+1, uint64(len(d))-1, uint64(len(d))/2)).Draw(t, label+"Val")
		var b [8]byte
		if rapid.Bool().Draw(t, label+"BE") {
			binary.BigEndian.PutUint64(b[:], v<<(8*(8-width)))
		} else {
			binary.LittleEndian.PutUint64(b[:], v)
		}
		for i := 0; i < width && p+i < len(d); i++ {
			d[p+i] = b[i]
		}
	}
	// re-encode one CBOR item head (major type kept) with another argument value
	recode := func(p int, v uint64) {
		major := d[p] & 0xe0
		info := d[p] & 0x1f
		oldLen := 1
		switch info {
		case 24:
			oldLen = 2
		case 25:
			oldLen = 3
		case 26:
			oldLen = 5
		case 27:
			oldLen = 9
		}
		var enc []byte
		switch {
		case v < 24:
			enc = []byte{major | byte(v)}
		case v < 1<<8:
			enc = []byte{major | 24, byte(v)}
		case v < 1<<16:
			enc = []byte{major | 25, byte(v >> 8), byte(v)}
		case v < 1<<32:
			enc = []byte{major | 26, byte(v >> 24), byte(v >> 16), byte(v >> 8), byte(v)}
		default:
			enc = []byte{major | 27, byte(v >> 56), byte(v >> 48), byte(v >> 40), byte(v >> 32), byte(v >> 24), byte(v >> 16), byte(v >> 8), byte(v)}
		}
		if p+oldLen > len(d) {
			return
		}
		d = append(append(append([]byte{}, d[:p]...), enc...), d[p+oldLen:]...)
	}
	switch how {
	case "cbor-int", "cbor-len":
		var cand []int
		for _, h := range vfCborHeads(d) {
			mj := d[h] >> 5
			if (how == "cbor-int" && mj <= 1) || (how == "cbor-len" && (mj == 2 || mj == 4 || mj == 5)) {
				cand = append(cand, h)
			}
		}
		if len(cand) > 0 {
			p := cand[rapid.IntRange(0, len(cand)-1).Draw(t, "item")]
			if how == "cbor-int" {
				if rapid.Bool().Draw(t, "negate") {
					d[p] = (d[p] & 0x1f) | (((d[p] >> 5) ^ 1) << 5) // unsigned <-> negative
				}
				recode(p, rapid.SampledFrom(vfHostile64).Draw(t, "intVal"))
			} else {
				recode(p, rapid.SampledFrom([]uint64{0, 1, 2, 3, 5, 6, 7, 23, 24, 255, 256, 65536, 1 << 24, 1<<32 - 1, 1 << 40, 1<<63 - 1}).Draw(t, "lenVal"))
			}
		}
	case "varint":
		// overwrite a length varint of the format with a hostile value
		offs := tg.varints(vfC12world, seed)
		off := offs[rapid.IntRange(0, len(offs)-1).Draw(t, "varintAt")]
		v := rapid.SampledFrom([]uint64{0, 1, 35, 36, 37, 127, 128, 16383, 16384, 1 << 21, 32 << 20, 32<<20 + 1, 1 << 31, 1 << 32, 1 << 40, 1<<63 - 1, ^uint64(0)}).Draw(t, "varintVal")
		if off < len(d) {
			_, n := binary.Uvarint(d[off:])
			if n < 0 {
				n = 0
			}
			enc := binary.AppendUvarint(nil, v)
			d = append(append(append([]byte{}, d[:off]...), enc...), d[min(len(d), off+n):]...)
		}
	case "meta":
		// the key/value metadata of a compact index re-encoded with one pair changed (value of another length,
		// pair missing, key changed, pair repeated, order changed); the file stays well-formed around it
		var h compactindexsized.Header
		if len(d) >= 12 && h.Load(d[:min(len(d), 12+int(binary.LittleEndian.Uint32(d[8:12])))]) == nil && len(h.Metadata.KeyVals) > 0 {
			oldLen := 12 + int(binary.LittleEndian.Uint32(d[8:12]))
			kvs := h.Metadata.KeyVals
			i := rapid.IntRange(0, len(kvs)-1).Draw(t, "metaPair")
			switch rapid.IntRange(0, 5).Draw(t, "metaOp") {
			case 0, 1:
				n := rapid.SampledFrom([]int{0, 1, 2, 3, 4, 7, 9, 16, 33, 35, 37, 255}).Draw(t, "metaValLen")
				v := make([]byte, n)
				for j := range v {
					v[j] = 1
				}
				copy(v, kvs[i].Value)
				kvs[i].Value = v
			case 2:
				kvs = append(kvs[:i:i], kvs[i+1:]...)
			case 3:
				k := append([]byte{}, kvs[i].Key...)
				if len(k) > 0 {
					k[0] ^= 1
				}
				kvs[i].Key = k
			case 4:
				kvs = append(kvs, indexmeta.KV{Key: kvs[i].Key, Value: rapid.SliceOfN(rapid.Byte(), 0, 40).Draw(t, "metaDupVal")})
			case 5:
				j := rapid.IntRange(0, len(kvs)-1).Draw(t, "metaSwap")
				kvs[i], kvs[j] = kvs[j], kvs[i]
			}
			h.Metadata.KeyVals = kvs
			d = append(h.Bytes(), d[oldLen:]...)
		}
	case "ll-payload":
		// the first record of an address-index log with its *decompressed* payload (a list of uvarint triples)
		// altered - a hostile or overlong varint, a flipped bit, a cut, extra bytes - and compressed again under a
		// correct length prefix: corruption that survives the zstd layer
		if plen, n := binary.Uvarint(d); n > 0 && plen >= 9 && uint64(n)+plen <= uint64(len(d)) {
			comp := d[n : uint64(n)+plen-9]
			next := d[uint64(n)+plen-9 : uint64(n)+plen]
			if dec, err := zstd.NewReader(nil); err == nil {
				raw, derr := dec.DecodeAll(comp, nil)
				dec.Close()
				if derr == nil {
					at := 0
					if len(raw) > 0 {
						at = rapid.IntRange(0, len(raw)-1).Draw(t, "llAt")
					}
					switch rapid.IntRange(0, 5).Draw(t, "llOp") {
					case 0, 1:
						v := rapid.SampledFrom([][]byte{
							{0xff, 0xff, 0xff, 0xff, 0xff, 0xff, 0xff, 0xff, 0xff, 0x01},       // 2^64-1
							{0xff, 0xff, 0xff, 0xff, 0xff, 0xff, 0xff, 0xff, 0xff, 0x7f},       // overflows 64 bits
							{0x80, 0x80, 0x80, 0x80, 0x80, 0x80, 0x80, 0x80, 0x80, 0x80, 0x01}, // 11 bytes
							{0xff, 0xff, 0xff, 0xff, 0xff, 0xff, 0xff, 0xff, 0xff, 0xff, 0xff, 0xff},
							{0x80}, {0x00}, {0xff, 0xff, 0xff, 0xff, 0x0f},
						}).Draw(t, "llVarint")
						raw = append(append(append([]byte{}, raw[:at]...), v...), raw[min(len(raw), at+1):]...)
					case 2:
						if len(raw) > 0 {
							raw[at] ^= 1 << rapid.IntRange(0, 7).Draw(t, "llBit")
						}
					case 3:
						raw = raw[:at]
					case 4:
						raw = append(raw, rapid.SliceOfN(rapid.Byte(), 1, 30).Draw(t, "llExtra")...)
					case 5:
						raw = rapid.SliceOfN(rapid.Byte(), 0, 60).Draw(t, "llRandom")
					}
					if enc, err := zstd.NewWriter(nil); err == nil {
						comp2 := enc.EncodeAll(raw, nil)
						enc.Close()
						if rapid.IntRange(0, 3).Draw(t, "llKeepNext") == 0 {
							next = make([]byte, 9)
						}
						rec := binary.AppendUvarint(nil, uint64(len(comp2))+9)
						rec = append(append(rec, comp2...), next...)
						d = append(rec, d[uint64(n)+plen:]...)
					}
				}
			}
		}
	case "nudge":
		// an integer of the input (a known header field of the format, or any aligned position) moved by a small
		// amount or scaled: the off-by-one neighbours of a valid value
		if len(d) > 0 {
			p, width := 0, 8
			if len(tg.fields) > 0 && rapid.IntRange(0, 3).Draw(t, "nudgeKnown") > 0 {
				f := tg.fields[rapid.IntRange(0, len(tg.fields)-1).Draw(t, "nudgeField")]
				p, width = f[0], f[1]
			} else {
				width = rapid.SampledFrom([]int{1, 2, 4, 8}).Draw(t, "nudgeWidth")
				p = pos("nudge")
				if rapid.Bool().Draw(t, "nudgeAlign") {
					p -= p % width
				}
			}
			if p+width <= len(d) {
				be := len(tg.fields) == 0 && rapid.IntRange(0, 3).Draw(t, "nudgeBE") == 0
				var v uint64
				for i := 0; i < width; i++ {
					if be {
						v = v<<8 | uint64(d[p+i])
					} else {
						v |= uint64(d[p+i]) << (8 * i)
					}
				}
				switch rapid.IntRange(0, 7).Draw(t, "nudgeOp") {
				case 0, 1:
					v--
				case 2, 3:
					v++
				case 4:
					v -= 2
				case 5:
					v += 2
				case 6:
					v *= 2
				case 7:
					v /= 2
				}
				for i := 0; i < width; i++ {
					if be {
						d[p+i] = byte(v >> (8 * (width - 1 - i)))
					} else {
						d[p+i] = byte(v >> (8 * i))
					}
				}
			}
		}
	case "field":
		setField("f")
	case "field2":
		setField("f")
		setField("g")
	case "truncate":
		if len(d) > 0 {
			d = d[:rapid.IntRange(0, len(d)-1).Draw(t, "cut")]
		}
	case "cbor-head":
		heads := vfCborHeads(d)
		if len(heads) > 0 {
			n := rapid.IntRange(1, 2).Draw(t, "nHeads")
			for i := 0; i < n; i++ {
				p := heads[rapid.IntRange(0, len(heads)-1).Draw(t, "head")]
				d[p] = rapid.SampledFrom(vfCborHeadBytes).Draw(t, "headByte")
			}
		}
	case "flip":
		if len(d) > 0 {
			p := pos("flip")
			d[p] ^= 1 << rapid.IntRange(0, 7).Draw(t, "bit")
		}
	case "random":
		d = rapid.SliceOfN(rapid.Byte(), 0, 300).Draw(t, "bytes")
	case "extend":
		d = append(d, rapid.SliceOfN(rapid.Byte(), 1, 40).Draw(t, "extra")...)
	case "empty-or-tiny":
		d = d[:min(len(d), rapid.IntRange(0, 13).Draw(t, "tiny"))]
	}
	return d, how
}

type vfC12Outcome struct {
	deep    bool
	alloc   uint64
	elapsed time.Duration
}

// vfC12exec runs the target under the panic / time / memory watchdog.
func vfC12exec(w *vfC12World, tg *vfC12Target, data []byte) (vfC12Outcome, error) {
	var out vfC12Outcome
	var before runtime.MemStats
	runtime.ReadMemStats(&before)
	w.allocBase, w.allocErr, w.allocMax, w.inLen = before.TotalAlloc, "", 0, len(data)
	start := time.Now()
	done := make(chan error, 1)
	go func() {
		defer func() {
			if p := recover(); p != nil {
				buf := make([]byte, 4096)
				n := runtime.Stack(buf, false)
				done <- fmt.Errorf("panic: %v\n%s", p, vfTrimStack(string(buf[:n])))
			}
		}()
		out.deep = tg.run(w, data)
		done <- nil
	}()
	select {
	case err := <-done:
		if err != nil {
			return out, err
		}
	case <-time.After(20 * time.Second):
		return out, fmt.Errorf("did not return within 20s on a %d-byte input", len(data))
	}
	out.elapsed = time.Since(start)
	w.step("the call", 0)
	out.alloc = w.allocMax // largest single call
	if w.allocErr != "" {
		return out, errors.New(w.allocErr)
	}
	return out, nil
}

func vfTrimStack(s string) string {
	lines := bytes.Split([]byte(s), []byte("\n"))
	var keep [][]byte
	for _, l := range lines {
		if bytes.Contains(l, []byte("yellowstone-faithful")) && !bytes.Contains(l, []byte("zz_vf")) {
			keep = append(keep, l)
			if len(keep) >= 6 {
				break
			}
		}
	}
	return string(bytes.Join(keep, []byte("\n")))
}

func vfC12target(name string) *vfC12Target {
	for i := range vfC12Targets {
		if vfC12Targets[i].name == name {
			return &vfC12Targets[i]
		}
	}
	return nil
}

func TestVfC12(t *testing.T) {
	run := vfh.Begin("C12", "mutation")
	defer run.End(t)
	w, err := vfC12setup()
	if err != nil {
		t.Fatalf("harness: %v", err)
	}
	var req []string
	for _, tg := range vfC12Targets {
		req = append(req, "target:"+tg.name, "deep:"+tg.name)
	}
	run.Require(req...)
	files := vfh.ReplayFiles("C12", "mutation")
	sort.Strings(files)
	for _, p := range files {
		var c vfC12Case
		if err := vfh.LoadCaseFile(p, &c); err != nil {
			t.Fatalf("regress %s: %v", p, err)
		}
		tg := vfC12target(c.Target)
		if tg == nil {
			continue
		}
		run.SetLast(&c)
		if _, err := vfC12exec(w, tg, c.Data); err != nil {
			t.Fatalf("regression case %s: C12 violated: target %s: %v", filepath.Base(p), c.Target, err)
		}
		run.Class("regress-replayed")
	}
	only := os.Getenv("VERIF_C12_TARGET")
	maxExcess := map[string]int64{} // per target: largest (bytes allocated - 256 x input length) seen
	defer func() {
		kib := map[string]int64{}
		for k, v := range maxExcess {
			kib[k] = v >> 10
		}
		run.Note("max_alloc_above_256x_input_KiB", kib)
	}()
	rapid.Check(t, func(rt *rapid.T) {
		tg := &vfC12Targets[rapid.IntRange(0, len(vfC12Targets)-1).Draw(rt, "target")]
		if only != "" {
			tg = vfC12target(only)
		}
		seeds := tg.seeds(w)
		seed := seeds[rapid.IntRange(0, len(seeds)-1).Draw(rt, "seed")]
		data, how := vfC12mutate(rt, tg, seed)
		c := &vfC12Case{Target: tg.name, Data: data, How: how}
		run.SetLast(c)
		out, err := vfC12exec(w, tg, data)
		if ex := int64(out.alloc) - 256*int64(len(data)); ex > maxExcess[tg.name] {
			maxExcess[tg.name] = ex
		}
		if err != nil && strings.Contains(err.Error(), "did not return within") {
			// the parser is still running in its goroutine and cannot be stopped: report and leave
			run.Abort(c, fmt.Sprintf("C12 violated: target %s (%s mutation, %d bytes): %v", tg.name, how, len(data), err))
		}
		cls := []string{"target:" + tg.name, "how:" + how}
		if out.deep {
			cls = append(cls, "deep:"+tg.name)
		}
		run.Case(c, out.deep && how != "valid", map[string]any{"target": tg.name, "how": how, "bytes": len(data), "head": fmt.Sprintf("%x", data[:min(len(data), 32)]), "deep": out.deep}, cls...)
		if err != nil {
			rt.Fatalf("C12 violated: target %s (%s mutation of a valid input, %d bytes): %v", tg.name, how, len(data), err)
		}
	})
}

func TestVfReplayC12(t *testing.T) {
	var c vfC12Case
	if !vfh.LoadReplay(t, &c) {
		t.Skip("no VERIF_REPLAY")
	}
	w, err := vfC12setup()
	if err != nil {
		t.Fatalf("harness: %v", err)
	}
	tg := vfC12target(c.Target)
	if tg == nil {
		t.Fatalf("unknown target %s", c.Target)
	}
	if _, err := vfC12exec(w, tg, c.Data); err != nil {
		t.Fatalf("C12 violated: target %s: %v", c.Target, err)
	}
}

// FuzzVfC12: native coverage-guided fuzzing of the same targets (thorough tier).
// The first byte selects the target; the corpus is seeded with the valid inputs.
func FuzzVfC12(f *testing.F) {
	w, err := vfC12setup()
	if err != nil {
		f.Fatalf("harness: %v", err)
	}
	only := os.Getenv("VERIF_C12_TARGET")
	for i := range vfC12Targets {
		tg := &vfC12Targets[i]
		if only != "" && tg.name != only {
			continue
		}
		for _, s := range tg.seeds(w) {
			if len(s) <= 64<<10 {
				f.Add(byte(i), s)
			} else {
				f.Add(byte(i), s[:4096])
			}
		}
		f.Add(byte(i), []byte{})
		f.Add(byte(i), []byte{0xff, 0xff, 0xff, 0xff, 0xff, 0xff, 0xff, 0xff, 0x7f})
	}
	run := vfh.Begin("C12", "fuzz")
	f.Fuzz(func(t *testing.T, sel byte, data []byte) {
		tg := &vfC12Targets[int(sel)%len(vfC12Targets)]
		if only != "" {
			tg = vfC12target(only)
		}
		if len(data) > 1<<20 {
			return
		}
		if _, err := vfC12exec(w, tg, data); err != nil {
			c := &vfC12Case{Target: tg.name, Data: append([]byte{}, data...), How: "native-fuzz"}
			run.DumpReplay(c, err.Error())
			t.Fatalf("C12 violated: target %s (%d bytes): %v", tg.name, len(data), err)
		}
	})
}
