package main

// C14: multi-frame payloads reassemble to the original bytes, or are rejected
// when a frame is missing / duplicated / altered / mixed with another payload.

import (
	"bytes"
	"context"
	"encoding/binary"
	"encoding/hex"
	"fmt"
	"hash/crc64"
	"hash/fnv"
	"testing"

	"github.com/ipfs/go-cid"
	"github.com/ipld/go-ipld-prime"
	"github.com/ipld/go-ipld-prime/codec/dagcbor"
	cidlink "github.com/ipld/go-ipld-prime/linking/cid"
	mh "github.com/multiformats/go-multihash"
	"github.com/rpcpool/yellowstone-faithful/accum"
	"github.com/rpcpool/yellowstone-faithful/compactindexsized"
	"github.com/rpcpool/yellowstone-faithful/ipld/ipldbindcode"
	"github.com/rpcpool/yellowstone-faithful/iplddecoders"
	"github.com/rpcpool/yellowstone-faithful/third_party/solana_proto/confirmed_block"
	"github.com/rpcpool/yellowstone-faithful/tooling"
	"github.com/rpcpool/yellowstone-faithful/zz_verif/cargen"
	"github.com/rpcpool/yellowstone-faithful/zz_verif/vfh"
	"google.golang.org/protobuf/proto"
	"pgregory.net/rapid"
)

type vfC14Case struct {
	Seed     uint64
	Size     int // approx. payload size (log padding of the metadata protobuf); -1: raw tiny payload of RawLen bytes
	RawLen   int
	Frames   int
	Shape    string // "schema" or "tree"
	Fanout   int
	Parents  []int  // tree shape: parent of frame i (i>=1), < i
	PermSeed uint64 // order of children in next lists / order of stored objects
	Hash     string // "crc", "fnv", "none"
	Total    bool
	Fault    string // "", "missing", "drop-link", "dup-link", "bitflip", "foreign", "swap"
	NotFound bool   // a missing frame is reported by the getter with an error wrapping the index's ErrNotFound (as the real getter does) instead of a plain error
	FaultA   int    // target frame (>=1)
	FaultB   int    // second frame for swap
	FlipBit  int
}

type vfC14Frames struct {
	first   ipldbindcode.DataFrame
	raws    map[string][]byte // cid -> encoded continuation frame
	order   []cid.Cid         // continuation frames, children before parents
	payload []byte
	metaRaw []byte
	// notFoundKind: see vfC14Case.NotFound
	notFoundKind bool
}

func vfC14split(n uint64) func() uint64 {
	x := n
	return func() uint64 {
		x += 0x9e3779b97f4a7c15
		z := x
		z = (z ^ (z >> 30)) * 0xbf58476d1ce4e5b9
		z = (z ^ (z >> 27)) * 0x94d049bb133111eb
		return z ^ (z >> 31)
	}
}

func vfC14payload(seed uint64, size, rawLen int) (payload, metaRaw []byte) {
	next := vfC14split(seed)
	if size < 0 {
		b := make([]byte, rawLen)
		for i := range b {
			b[i] = byte(next())
		}
		return b, nil
	}
	m := &confirmed_block.TransactionStatusMeta{Fee: 5000 + next()%1000, PreBalances: []uint64{next() % 1e9, 1}, PostBalances: []uint64{next() % 1e9, 1}}
	for n := 0; n < size; n += 64 {
		var b [32]byte
		for i := 0; i < 32; i += 8 {
			binary.LittleEndian.PutUint64(b[i:], next())
		}
		m.LogMessages = append(m.LogMessages, hex.EncodeToString(b[:]))
	}
	raw, _ := proto.MarshalOptions{Deterministic: true}.Marshal(m)
	return cargen.Compress(raw), raw
}

func vfC14sum(kind string, data []byte) uint64 {
	if kind == "fnv" {
		h := fnv.New64a()
		h.Write(data)
		return h.Sum64()
	}
	return crc64.Checksum(data, crc64.MakeTable(crc64.ISO))
}

func vfPPi(v int) **int { p := &v; return &p }
func vfNulli() **int    { var p *int; return &p }

func vfC14cid(raw []byte) cid.Cid {
	sum, _ := mh.Sum(raw, mh.SHA2_256, -1)
	return cid.NewCidV1(cid.DagCBOR, sum)
}

// vfC14build lays the payload out as frames according to the case (including
// the injected structural fault) and returns the first frame + the stored
// continuation frames.
func vfC14build(c *vfC14Case, payload []byte, foreign []byte) *vfC14Frames {
	n := c.Frames
	chunk := func(p []byte, i int) []byte { return append([]byte{}, p[len(p)*i/n:len(p)*(i+1)/n]...) }
	children := make([][]int, n)
	if c.Shape == "tree" {
		for i := 1; i < n; i++ {
			p := 0
			if i-1 < len(c.Parents) {
				p = c.Parents[i-1]
			}
			if p >= i || p < 0 {
				p = i - 1
			}
			children[p] = append(children[p], i)
		}
	} else {
		f := c.Fanout
		if f < 1 {
			f = 1
		}
		for h := 0; h < n; h += f {
			for j := h + 1; j <= h+f && j < n; j++ {
				children[h] = append(children[h], j)
			}
		}
	}
	// permute child order
	next := vfC14split(c.PermSeed)
	for i := range children {
		ch := children[i]
		for k := len(ch) - 1; k > 0; k-- {
			j := int(next() % uint64(k+1))
			ch[k], ch[j] = ch[j], ch[k]
		}
	}
	data := make([][]byte, n)
	for i := 0; i < n; i++ {
		data[i] = chunk(payload, i)
	}
	switch c.Fault {
	case "bitflip":
		if len(data[c.FaultA]) > 0 {
			bit := c.FlipBit % (len(data[c.FaultA]) * 8)
			data[c.FaultA][bit/8] ^= 1 << (bit % 8)
		}
	case "foreign":
		data[c.FaultA] = chunk(foreign, c.FaultA)
	case "swap":
		data[c.FaultA], data[c.FaultB] = data[c.FaultB], data[c.FaultA]
	}
	sum := int(vfC14sum(c.Hash, payload))
	out := &vfC14Frames{raws: map[string][]byte{}, payload: payload}
	cids := make([]cid.Cid, n)
	mk := func(i int) ipldbindcode.DataFrame {
		f := ipldbindcode.DataFrame{Kind: 6, Data: data[i], Index: vfPPi(i)}
		if c.Hash == "none" {
			f.Hash = vfNulli()
		} else {
			f.Hash = vfPPi(sum)
		}
		if c.Total {
			f.Total = vfPPi(n)
		} else {
			f.Total = vfNulli()
		}
		if len(children[i]) > 0 {
			l := ipldbindcode.List__Link{}
			for _, j := range children[i] {
				if c.Fault == "drop-link" && j == c.FaultA {
					continue
				}
				l = append(l, cidlink.Link{Cid: cids[j]})
				if c.Fault == "dup-link" && j == c.FaultA {
					l = append(l, cidlink.Link{Cid: cids[j]})
				}
			}
			pl := &l
			f.Next = &pl
		}
		return f
	}
	for i := n - 1; i >= 1; i-- {
		f := mk(i)
		raw, err := ipld.Marshal(dagcbor.Encode, &f, ipldbindcode.Prototypes.DataFrame.Type())
		if err != nil {
			panic(err)
		}
		cids[i] = vfC14cid(raw)
		out.raws[cids[i].String()] = raw
		out.order = append(out.order, cids[i])
	}
	out.first = mk(0)
	if c.Fault == "missing" {
		delete(out.raws, cids[c.FaultA].String())
	}
	return out
}

func vfC14getter(fr *vfC14Frames, fetched *int) func(context.Context, cid.Cid) (*ipldbindcode.DataFrame, error) {
	return func(_ context.Context, c cid.Cid) (*ipldbindcode.DataFrame, error) {
		raw, ok := fr.raws[c.String()]
		if !ok {
			if fr.notFoundKind {
				// what the real getter (Epoch.GetDataFrameByCid over the cid-to-offset index) returns for a missing object
				return nil, fmt.Errorf("failed to find offset for CID %s: %w", c, compactindexsized.ErrNotFound)
			}
			return nil, fmt.Errorf("frame %s not available", c)
		}
		*fetched++
		return iplddecoders.DecodeDataFrame(raw)
	}
}

func vfC14eval(c *vfC14Case) error {
	payload, metaRaw := vfC14payload(c.Seed, c.Size, c.RawLen)
	foreign, _ := vfC14payload(c.Seed^0xfeedface, c.Size, c.RawLen)
	if len(foreign) < len(payload) {
		foreign = append(foreign, make([]byte, len(payload)-len(foreign))...)
	}
	fr := vfC14build(c, payload, foreign)
	fr.notFoundKind = c.NotFound
	judge := func(path string, got []byte, err error) error {
		if c.Fault == "" {
			if err != nil {
				return fmt.Errorf("[%s] intact %d-frame payload (%d bytes, shape %s) rejected: %v", path, c.Frames, len(payload), c.Shape, err)
			}
			if !bytes.Equal(got, payload) {
				return fmt.Errorf("[%s] intact %d-frame payload reassembled to %d bytes that differ from the original %d bytes", path, c.Frames, len(got), len(payload))
			}
			return nil
		}
		if err == nil && !bytes.Equal(got, payload) {
			return fmt.Errorf("[%s] fault %q on frame %d of %d (hash %s, total recorded %v): reassembly returned %d bytes different from the original instead of an error", path, c.Fault, c.FaultA, c.Frames, c.Hash, c.Total, len(got))
		}
		return nil
	}
	// path 1: tooling.LoadDataFromDataFrames
	n1 := 0
	got, err := tooling.LoadDataFromDataFrames(&fr.first, vfC14getter(fr, &n1))
	if e := judge("LoadDataFromDataFrames", got, err); e != nil {
		return e
	}
	if metaRaw == nil {
		return nil
	}
	// a transaction node carrying this metadata
	txSpec := &cargen.EpochSpec{Epoch: 1, Seed: c.Seed, TxIndex: true, Blocks: []cargen.BlockSpec{{Gap: 0, Entries: []cargen.EntrySpec{{Txs: []cargen.TxSpec{{Seed: 1, NSigs: 1, MetaSize: 0, MetaFrames: 1, Fanout: 1}}}}}}}
	ep, err := cargen.Build(txSpec)
	if err != nil {
		return fmt.Errorf("harness: %v", err)
	}
	txNodeRef, err := iplddecoders.DecodeTransaction(ep.Objects[ep.Txs[0].ObjIdx].Data)
	if err != nil {
		return fmt.Errorf("harness: %v", err)
	}
	txNode := *txNodeRef
	txNode.Metadata = fr.first
	// path 2: storage.go getTransactionAndMetaFromNode
	n2 := 0
	txb, meta, err := getTransactionAndMetaFromNode(&txNode, vfC14getter(fr, &n2))
	if c.Fault == "" {
		if err != nil {
			return fmt.Errorf("[getTransactionAndMetaFromNode] intact payload rejected: %v", err)
		}
		if !bytes.Equal(txb, ep.Txs[0].TxBytes) || !bytes.Equal(meta, metaRaw) {
			return fmt.Errorf("[getTransactionAndMetaFromNode] intact payload: transaction/metadata bytes differ from the original")
		}
	} else if err == nil && !bytes.Equal(meta, metaRaw) {
		return fmt.Errorf("[getTransactionAndMetaFromNode] fault %q on frame %d of %d: returned metadata different from the original instead of an error", c.Fault, c.FaultA, c.Frames)
	}
	// path 2b: parseTransactionAndMetaFromNode - what getTransaction / getBlock / getSignaturesForAddress use over
	// JSON-RPC (the metadata comes back parsed). Judged when the original payload is parseable metadata.
	if metaRaw != nil {
		n2b := 0
		_, parsed, perr := parseTransactionAndMetaFromNode(&txNode, vfC14getter(fr, &n2b))
		pm, _ := parsed.(*confirmed_block.TransactionStatusMeta)
		var orig confirmed_block.TransactionStatusMeta
		if proto.Unmarshal(metaRaw, &orig) == nil {
			same := pm != nil && proto.Equal(pm, &orig)
			if c.Fault == "" {
				if perr != nil {
					return fmt.Errorf("[parseTransactionAndMetaFromNode] intact payload rejected: %v", perr)
				}
				if !same {
					return fmt.Errorf("[parseTransactionAndMetaFromNode] intact %d-frame payload: the parsed metadata differs from the original (nil=%v)", c.Frames, pm == nil)
				}
			} else if perr == nil && !same {
				return fmt.Errorf("[parseTransactionAndMetaFromNode] fault %q on frame %d of %d: no error, and the metadata returned is not the original (nil=%v)", c.Fault, c.FaultA, c.Frames, pm == nil)
			}
		}
	}
	// path 3: accum.ObjectsToTransactionsAndMetadata - frames delivered as the CAR objects preceding the transaction
	txRaw, err := ipld.Marshal(dagcbor.Encode, &txNode, ipldbindcode.Prototypes.Transaction.Type())
	if err != nil {
		return fmt.Errorf("harness: %v", err)
	}
	var objs []accum.ObjectWithMetadata
	order := append([]cid.Cid{}, fr.order...)
	next := vfC14split(c.PermSeed ^ 0x1234)
	for k := len(order) - 1; k > 0; k-- {
		j := int(next() % uint64(k+1))
		order[k], order[j] = order[j], order[k]
	}
	for _, cc := range order {
		raw, ok := fr.raws[cc.String()]
		if !ok {
			continue // the missing frame is not in the CAR
		}
		objs = append(objs, accum.ObjectWithMetadata{Cid: cc, ObjectData: raw})
	}
	objs = append(objs, accum.ObjectWithMetadata{Cid: vfC14cid(txRaw), ObjectData: txRaw})
	blk := &ipldbindcode.Block{Kind: 2, Slot: int(ep.Txs[0].Slot)}
	res, err := accum.ObjectsToTransactionsAndMetadata(blk, objs)
	if c.Fault == "" {
		if err != nil {
			return fmt.Errorf("[ObjectsToTransactionsAndMetadata] intact payload rejected: %v", err)
		}
		if len(res) != 1 || res[0].Error != nil || res[0].Metadata == nil || !res[0].Metadata.IsProtobuf() {
			return fmt.Errorf("[ObjectsToTransactionsAndMetadata] intact payload: no parsed metadata (n=%d)", len(res))
		}
		want := &confirmed_block.TransactionStatusMeta{}
		proto.Unmarshal(metaRaw, want)
		if !proto.Equal(res[0].Metadata.GetProtobuf(), want) {
			return fmt.Errorf("[ObjectsToTransactionsAndMetadata] intact payload: parsed metadata differs from the original")
		}
	} else if err == nil && len(res) == 1 && res[0].Error == nil && res[0].Metadata != nil && res[0].Metadata.IsProtobuf() {
		want := &confirmed_block.TransactionStatusMeta{}
		proto.Unmarshal(metaRaw, want)
		if !proto.Equal(res[0].Metadata.GetProtobuf(), want) {
			return fmt.Errorf("[ObjectsToTransactionsAndMetadata] fault %q on frame %d of %d: returned metadata different from the original instead of an error", c.Fault, c.FaultA, c.Frames)
		}
	}
	return nil
}

func vfC14gen(t *rapid.T) *vfC14Case {
	c := &vfC14Case{}
	c.Seed = rapid.Uint64().Draw(t, "seed")
	c.PermSeed = rapid.Uint64().Draw(t, "permSeed")
	c.Size = rapid.SampledFrom([]int{0, 64, 500, 3000, 20000, vfh.Pick(20000, 200000)}).Draw(t, "size")
	if rapid.IntRange(0, 7).Draw(t, "rawTiny") == 0 {
		c.Size = -1
		c.RawLen = rapid.IntRange(0, 70).Draw(t, "rawLen")
	}
	c.Frames = rapid.OneOf(rapid.IntRange(1, 60), rapid.SampledFrom([]int{1, 2, 3, 10, 11, 60})).Draw(t, "frames")
	c.Shape = rapid.SampledFrom([]string{"schema", "schema", "tree"}).Draw(t, "shape")
	c.Fanout = rapid.IntRange(1, 10).Draw(t, "fanout")
	if c.Shape == "tree" {
		for i := 1; i < c.Frames; i++ {
			c.Parents = append(c.Parents, rapid.IntRange(0, i-1).Draw(t, "parent"))
		}
	}
	c.Hash = rapid.SampledFrom([]string{"crc", "crc", "fnv", "none"}).Draw(t, "hash")
	// the code documents "no total recorded => the payload is a single frame": the
	// frame count is omitted only for single-frame payloads
	c.Total = c.Frames > 1 || rapid.IntRange(0, 3).Draw(t, "total") != 0
	if rapid.Bool().Draw(t, "withFault") {
		c.Fault = rapid.SampledFrom([]string{"missing", "drop-link", "dup-link", "bitflip", "foreign", "swap"}).Draw(t, "fault")
		if c.Frames == 1 {
			// a single frame can only be altered
			c.Fault = rapid.SampledFrom([]string{"bitflip", "foreign"}).Draw(t, "fault1")
		}
		// faults are judged for payloads carrying checksum and frame count
		if c.Hash == "none" {
			c.Hash = "crc"
		}
		c.Total = true
		lo := 1
		if c.Fault == "bitflip" || c.Fault == "foreign" || c.Fault == "swap" {
			lo = 0 // the data of the first frame (the one embedded in the transaction / rewards node) can be altered too
		}
		c.FaultA = rapid.IntRange(lo, c.Frames-1).Draw(t, "faultA")
		c.FaultB = rapid.IntRange(min(1, c.Frames-1), c.Frames-1).Draw(t, "faultB")
		c.FlipBit = rapid.IntRange(0, 1<<20).Draw(t, "flipBit")
		c.NotFound = rapid.Bool().Draw(t, "notFoundKind")
	}
	return c
}

func vfC14depth(c *vfC14Case) int {
	if c.Shape == "tree" {
		d := make([]int, c.Frames)
		max := 0
		for i := 1; i < c.Frames; i++ {
			d[i] = d[c.Parents[i-1]] + 1
			if d[i] > max {
				max = d[i]
			}
		}
		return max
	}
	f := c.Fanout
	if f < 1 {
		f = 1
	}
	return (c.Frames - 2 + f) / f
}

func TestVfC14(t *testing.T) {
	run := vfh.Begin("C14", "frames")
	defer run.End(t)
	run.Require("fault:none", "fault:missing", "fault:drop-link", "fault:dup-link", "fault:bitflip", "fault:foreign", "fault:swap", "shape:tree", "shape:schema", "hash:fnv", "hash:none")
	rapid.Check(t, func(rt *rapid.T) {
		c := vfC14gen(rt)
		run.SetLast(c)
		fl := c.Fault
		if fl == "" {
			fl = "none"
		}
		nt := c.Frames >= 3 && vfC14depth(c) >= 2
		run.Case(c, nt, c, "fault:"+fl, "shape:"+c.Shape, "hash:"+c.Hash)
		err, panicked := vfh.Catch(func() error { return vfC14eval(c) })
		if err != nil {
			if panicked {
				rt.Fatalf("C14 violated: reassembly panicked: %v", err)
			}
			rt.Fatalf("C14 violated: %v", err)
		}
	})
}

func TestVfReplayC14(t *testing.T) {
	var c vfC14Case
	if !vfh.LoadReplay(t, &c) {
		t.Skip("no VERIF_REPLAY")
	}
	if err, _ := vfh.Catch(func() error { return vfC14eval(&c) }); err != nil {
		t.Fatalf("C14 violated: %v", err)
	}
}
