package main

// C01: after `index all` every object resolves by CID to its own bytes, every
// slot to its block CID and block time, every first signature to its tx CID and
// is reported existing. Ground truth = cargen's own offset table.

import (
	"bytes"
	"context"
	"fmt"
	"os"
	"testing"

	"github.com/gagliardetto/solana-go"
	"github.com/rpcpool/yellowstone-faithful/blocktimeindex"
	"github.com/rpcpool/yellowstone-faithful/bucketteer"
	"github.com/rpcpool/yellowstone-faithful/indexes"
	"github.com/rpcpool/yellowstone-faithful/zz_verif/cargen"
	"github.com/rpcpool/yellowstone-faithful/zz_verif/vfh"
	"pgregory.net/rapid"
)

type vfC01Case struct {
	Spec    *cargen.EpochSpec
	HTTPCar bool
	Network string
}

func vfC01eval(c *vfC01Case) (sum map[string]any, verr error) {
	dir := vfh.TmpDir("c01")
	defer os.RemoveAll(dir)
	ep, err := cargen.Build(c.Spec)
	if err != nil {
		return nil, fmt.Errorf("harness: %v", err)
	}
	sum = ep.Summary()
	if len(ep.Blocks) == 0 || len(ep.Txs) == 0 {
		return sum, nil // outside the property's domain
	}
	network := indexes.Network(c.Network)
	env, err := vfBuildEpoch(dir, ep, vfBuildOpts{HTTPCar: c.HTTPCar, Network: network})
	if err != nil {
		return sum, fmt.Errorf("index generation failed on a well-formed CAR: %v", err)
	}
	defer env.Close()
	ctx := context.Background()

	// --- direct index readers ---
	c2o, err := indexes.Open_CidToOffsetAndSize(env.Paths.CidToOffsetAndSize)
	if err != nil {
		return sum, fmt.Errorf("open cid-to-offset-and-size: %v", err)
	}
	defer c2o.Close()
	s2c, err := indexes.Open_SlotToCid(env.Paths.SlotToCid)
	if err != nil {
		return sum, fmt.Errorf("open slot-to-cid: %v", err)
	}
	defer s2c.Close()
	g2c, err := indexes.Open_SigToCid(env.Paths.SignatureToCid)
	if err != nil {
		return sum, fmt.Errorf("open sig-to-cid: %v", err)
	}
	defer g2c.Close()
	sigEx, err := bucketteer.Open(env.Paths.SignatureExists)
	if err != nil {
		return sum, fmt.Errorf("open sig-exists: %v", err)
	}
	defer sigEx.Close()
	btRaw, err := os.ReadFile(env.Paths.SlotToBlocktime)
	if err != nil {
		return sum, err
	}
	bt, err := blocktimeindex.FromBytes(btRaw)
	if err != nil {
		return sum, fmt.Errorf("open slot-to-blocktime: %v", err)
	}
	// metadata
	for name, m := range map[string]*indexes.Metadata{"cid-to-offset-and-size": c2o.Meta(), "slot-to-cid": s2c.Meta(), "sig-to-cid": g2c.Meta()} {
		if m.Epoch != ep.Num || !m.RootCid.Equals(ep.Root) || m.Network != network {
			return sum, fmt.Errorf("%s metadata (epoch %d root %s network %s) differs from what was indexed (epoch %d root %s network %s)", name, m.Epoch, m.RootCid, m.Network, ep.Num, ep.Root, network)
		}
	}
	if bt.Epoch() != ep.Num {
		return sum, fmt.Errorf("slot-to-blocktime epoch %d != %d", bt.Epoch(), ep.Num)
	}
	// --- the Epoch as the server loads it ---
	epoch, err := env.Load(vfNewCache())
	if err != nil {
		return sum, fmt.Errorf("loading the epoch from its freshly built indexes failed: %v", err)
	}
	defer epoch.Close()

	type vfHeld struct {
		i    int
		data []byte
	}
	var held []vfHeld
	for i := range ep.Objects {
		o := &ep.Objects[i]
		got, err := c2o.Get(o.Cid)
		if err != nil {
			return sum, fmt.Errorf("object #%d (kind %d) cid %s: cid-to-offset-and-size lookup failed: %v", i, o.Kind, o.Cid, err)
		}
		if got.Offset != o.Offset || got.Size != o.SectionLen {
			return sum, fmt.Errorf("object #%d (kind %d) cid %s: index says offset=%d size=%d, the CAR has offset=%d size=%d", i, o.Kind, o.Cid, got.Offset, got.Size, o.Offset, o.SectionLen)
		}
		data, err := epoch.GetNodeByCid(ctx, o.Cid)
		if err != nil {
			return sum, fmt.Errorf("object #%d (kind %d) cid %s: GetNodeByCid failed: %v", i, o.Kind, o.Cid, err)
		}
		if !bytes.Equal(data, o.Data) {
			return sum, fmt.Errorf("object #%d (kind %d) cid %s: GetNodeByCid returned %d bytes that differ from the object's %d bytes", i, o.Kind, o.Cid, len(data), len(o.Data))
		}
		if len(held) < 4000 {
			held = append(held, vfHeld{i, data})
		}
	}
	// a caller keeps what it fetched while it fetches more (getBlock assembles a block from many objects): the
	// bytes handed out earlier must still be that object's bytes after all the later fetches
	for _, hd := range held {
		if o := &ep.Objects[hd.i]; !bytes.Equal(hd.data, o.Data) {
			return sum, fmt.Errorf("object #%d (kind %d) cid %s: the bytes returned by GetNodeByCid changed while later objects were fetched", hd.i, o.Kind, o.Cid)
		}
	}
	for _, b := range ep.Blocks {
		got, err := s2c.Get(b.Slot)
		if err != nil {
			return sum, fmt.Errorf("slot %d: slot-to-cid lookup failed: %v", b.Slot, err)
		}
		if !got.Equals(b.Cid) {
			return sum, fmt.Errorf("slot %d resolves to %s, the block is %s", b.Slot, got, b.Cid)
		}
		got2, err := epoch.FindCidFromSlot(ctx, b.Slot)
		if err != nil || !got2.Equals(b.Cid) {
			return sum, fmt.Errorf("slot %d: Epoch.FindCidFromSlot = %s, %v; the block is %s", b.Slot, got2, err, b.Cid)
		}
		t, err := bt.Get(b.Slot)
		if err != nil {
			return sum, fmt.Errorf("slot %d: block time lookup failed: %v", b.Slot, err)
		}
		if t != b.Blocktime {
			return sum, fmt.Errorf("slot %d: block time %d, recorded %d", b.Slot, t, b.Blocktime)
		}
		t2, err := epoch.GetBlocktime(b.Slot)
		if err != nil || t2 != b.Blocktime {
			return sum, fmt.Errorf("slot %d: Epoch.GetBlocktime = %d, %v; recorded %d", b.Slot, t2, err, b.Blocktime)
		}
	}
	for _, tx := range ep.Txs {
		got, err := g2c.Get(tx.Sig)
		if err != nil {
			return sum, fmt.Errorf("signature %s (slot %d pos %d): sig-to-cid lookup failed: %v", tx.Sig, tx.Slot, tx.Pos, err)
		}
		if !got.Equals(tx.Cid) {
			return sum, fmt.Errorf("signature %s resolves to %s, the transaction is %s", tx.Sig, got, tx.Cid)
		}
		got2, err := epoch.FindCidFromSignature(ctx, solana.Signature(tx.Sig))
		if err != nil || !got2.Equals(tx.Cid) {
			return sum, fmt.Errorf("signature %s: Epoch.FindCidFromSignature = %s, %v", tx.Sig, got2, err)
		}
		has, err := sigEx.Has(tx.Sig)
		if err != nil || !has {
			return sum, fmt.Errorf("signature %s: sig-exists Has = %v, %v", tx.Sig, has, err)
		}
		has2, err := epoch.sigExists.Has(tx.Sig)
		if err != nil || !has2 {
			return sum, fmt.Errorf("signature %s: epoch sig-exists Has = %v, %v", tx.Sig, has2, err)
		}
	}
	return sum, nil
}

func vfC01classes(c *vfC01Case, sum map[string]any) (bool, []string) {
	cls := []string{fmt.Sprintf("rootHash:%d", c.Spec.RootHash), fmt.Sprintf("epoch:%d", c.Spec.Epoch)}
	if hl, ok := sum["headerLen"].(uint64); ok && hl > 128 { // header frame = length prefix + body; body > 127 bytes <=> two-byte prefix
		cls = append(cls, "car-header>127-bytes")
	}
	if c.HTTPCar {
		cls = append(cls, "car-via-http-readerat")
	} else {
		cls = append(cls, "car-local-file")
	}
	if sum == nil {
		return false, cls
	}
	v2, v3 := sum["varint2"].(int), sum["varint3"].(int)
	if sum["varint1"].(int) > 0 {
		cls = append(cls, "varint1")
	}
	if v2 > 0 {
		cls = append(cls, "varint2")
	}
	if v3 > 0 {
		cls = append(cls, "varint3")
	}
	if sum["objects"].(int) > 10000 {
		cls = append(cls, "objects>10000")
	}
	nt := sum["blocks"].(int) >= 2 && sum["txs"].(int) >= 2 && (v2 > 0 || v3 > 0)
	return nt, cls
}

func TestVfC01(t *testing.T) {
	run := vfh.Begin("C01", "index-all")
	defer run.End(t)
	run.Require("varint1", "varint2", "varint3", "car-via-http-readerat", "car-local-file", "rootHash:0", "rootHash:1", "rootHash:2", "car-header>127-bytes")
	opts := cargen.DefaultOpts()
	rapid.Check(t, func(rt *rapid.T) {
		c := &vfC01Case{Spec: cargen.Gen(rt, opts)}
		c.HTTPCar = rapid.IntRange(0, 3).Draw(rt, "httpCar") == 0
		c.Network = rapid.SampledFrom([]string{"mainnet", "mainnet", "testnet", "devnet"}).Draw(rt, "network")
		run.SetLast(c)
		sum, err := vfC01eval(c)
		nt, cls := vfC01classes(c, sum)
		run.Case(c, nt, sum, cls...)
		if err != nil {
			rt.Fatalf("C01 violated: %v", err)
		}
	})
}

// TestVfC01Bulk: item counts around the 10 000-entries-per-bucket boundaries.
func TestVfC01Bulk(t *testing.T) {
	run := vfh.Begin("C01", "index-all-bulk")
	defer run.End(t)
	opts := cargen.DefaultOpts()
	opts.MaxBlocks = 3
	rapid.Check(t, func(rt *rapid.T) {
		c := &vfC01Case{Spec: cargen.Gen(rt, opts), Network: "mainnet"}
		// objects per bulk block = txs + entry + block
		shape := rapid.SampledFrom([]string{"tx9999", "tx10000", "tx10001", "obj10000", "blocks10001", "tx20001"}).Draw(rt, "bulkShape")
		switch shape {
		case "tx9999":
			c.Spec.BulkBlocks, c.Spec.BulkTxPerBlock = 99, 101
		case "tx10000":
			c.Spec.BulkBlocks, c.Spec.BulkTxPerBlock = 100, 100
		case "tx10001":
			c.Spec.BulkBlocks, c.Spec.BulkTxPerBlock = 137, 73
		case "obj10000":
			c.Spec.BulkBlocks, c.Spec.BulkTxPerBlock = 1000, 8
		case "blocks10001":
			c.Spec.BulkBlocks, c.Spec.BulkTxPerBlock = 10001, 1
		case "tx20001":
			c.Spec.BulkBlocks, c.Spec.BulkTxPerBlock = 401, 50
		}
		run.SetLast(c)
		sum, err := vfC01eval(c)
		nt, cls := vfC01classes(c, sum)
		run.Case(c, nt, sum, append(cls, "bulk:"+shape)...)
		if err != nil {
			rt.Fatalf("C01 violated: %v", err)
		}
	})
}

func TestVfReplayC01(t *testing.T) {
	var c vfC01Case
	if !vfh.LoadReplay(t, &c) {
		t.Skip("no VERIF_REPLAY")
	}
	if _, err := vfC01eval(&c); err != nil {
		t.Fatalf("C01 violated: %v", err)
	}
}
