package main

// C19: StreamBlocks / StreamTransactions over a slot range return exactly the
// archived items matching the filter. Reference = naive scan of cargen's ground truth.

import (
	"bytes"
	"context"
	"fmt"
	"sort"
	"testing"
	"time"

	"github.com/gagliardetto/solana-go"
	old_faithful_grpc "github.com/rpcpool/yellowstone-faithful/old-faithful-proto/old-faithful-grpc"
	"github.com/rpcpool/yellowstone-faithful/zz_verif/cargen"
	"github.com/rpcpool/yellowstone-faithful/zz_verif/vfh"
	"pgregory.net/rapid"
)

type vfC19Query struct {
	Blocks    bool // StreamBlocks instead of StreamTransactions
	Start     int  // index into the sorted list of interesting slots
	Len       int  // range length in slots (end = start+Len); -1: end omitted
	EdgeStart bool // start at one of the last archived blocks of an epoch that has a loaded successor
	NoFilter  bool
	Vote      int // 0 absent, 1 true, 2 false
	Failed    int
	Include   []int // account universe indexes
	Exclude   []int
	Required  []int
}

type vfC19Case struct {
	Specs   []*cargen.EpochSpec
	Queries []vfC19Query
}

type vfC19Tx struct {
	tx   *cargen.TxInfo
	slot uint64
}

func vfC19mentions(tx *cargen.TxInfo, k solana.PublicKey) bool { return tx.Mentions(k) }

func vfBoolPtr(v int) *bool {
	switch v {
	case 1:
		b := true
		return &b
	case 2:
		b := false
		return &b
	}
	return nil
}

func vfKeys(idx []int) []string {
	var out []string
	for _, i := range idx {
		out = append(out, cargen.Acct(i).String())
	}
	return out
}

// vfC19run evaluates all queries against one server configuration (address index loaded or not).
func vfC19run(c *vfC19Case, gsfa bool, st map[string]int, outTx map[int][]string) error {
	l, err := vfLoadEpochs(c.Specs, gsfa, &Options{EpochSearchConcurrency: 2})
	defer l.Close()
	if err != nil {
		return err
	}
	if len(l.eps) == 0 {
		return nil
	}
	// interesting slots: archived slots, their neighbours, epoch edges
	slotSet := map[uint64]bool{}
	blocks := map[uint64]*cargen.BlockInfo{}
	epOf := map[uint64]*cargen.Epoch{}
	for _, ep := range l.eps {
		slotSet[ep.FirstSlot()] = true
		for _, b := range ep.Blocks {
			blocks[b.Slot] = b
			epOf[b.Slot] = ep
			slotSet[b.Slot] = true
			slotSet[b.Slot+1] = true
			if b.Slot > 0 {
				slotSet[b.Slot-1] = true
			}
		}
	}
	var slots []uint64
	for s := range slotSet {
		slots = append(slots, s)
	}
	sort.Slice(slots, func(i, j int) bool { return slots[i] < slots[j] })
	cfg := "scan"
	if gsfa {
		cfg = "address-index"
	}
	for qi, q := range c.Queries {
		start := slots[q.Start%len(slots)]
		if q.EdgeStart && len(l.eps) >= 2 {
			// start at one of the last three archived blocks of an epoch that has a loaded successor
			older := l.eps[q.Start%(len(l.eps)-1)]
			k := (q.Start / 7) % min(3, len(older.Blocks))
			start = older.Blocks[len(older.Blocks)-1-k].Slot
		}
		end := start + 100
		var endPtr *uint64
		if q.Len >= 0 {
			end = start + uint64(q.Len)
			if q.EdgeStart && len(l.eps) >= 2 {
				// ... and end q.Len slots after the first archived block of the successor, when that is close
				if nf := l.eps[q.Start%(len(l.eps)-1)+1].Blocks[0].Slot; nf > start && nf-start <= 1000 {
					end = nf + uint64(q.Len)
				}
			}
			e := end
			endPtr = &e
		}
		// archived blocks of the range
		var inRange []*cargen.BlockInfo
		for s, b := range blocks {
			if s >= start && s <= end {
				inRange = append(inRange, b)
			}
		}
		sort.Slice(inRange, func(i, j int) bool { return inRange[i].Slot < inRange[j].Slot })
		skipped := len(inRange) >= 2 && inRange[len(inRange)-1].Slot-inRange[0].Slot >= uint64(len(inRange))
		ctx, cancel := context.WithTimeout(context.Background(), 60*time.Second)
		where := fmt.Sprintf("query %d [%s] slots %d..%d (%d archived blocks)", qi, cfg, start, end, len(inRange))
		if q.Blocks {
			req := &old_faithful_grpc.StreamBlocksRequest{StartSlot: start, EndSlot: endPtr}
			if !q.NoFilter {
				req.Filter = &old_faithful_grpc.StreamBlocksFilter{AccountInclude: vfKeys(q.Include)}
			}
			out := &vfBlockStream{ctx: ctx}
			var err error
			vfWatched(where+": StreamBlocks", func() { err = l.multi.StreamBlocks(req, out) })
			cancel()
			if err != nil {
				return fmt.Errorf("%s: StreamBlocks failed: %v", where, err)
			}
			var want []*cargen.BlockInfo
			for _, b := range inRange {
				ok := q.NoFilter || len(q.Include) == 0
				for _, t := range b.Txs {
					for _, a := range q.Include {
						if vfC19mentions(t, cargen.Acct(a)) {
							ok = true
						}
					}
				}
				if ok {
					want = append(want, b)
				}
			}
			if len(out.out) != len(want) {
				var got []uint64
				for _, b := range out.out {
					got = append(got, b.Slot)
				}
				return fmt.Errorf("%s include %v: StreamBlocks sent %d blocks %v, expected %d", where, q.Include, len(out.out), got, len(want))
			}
			for i, b := range out.out {
				var prev *cargen.BlockInfo
				ep := epOf[want[i].Slot]
				if want[i].Idx > 0 {
					prev = ep.Blocks[want[i].Idx-1]
				}
				if b.Slot != want[i].Slot {
					return fmt.Errorf("%s: StreamBlocks message %d is slot %d, expected %d (ascending archived slots)", where, i, b.Slot, want[i].Slot)
				}
				if err := vfCheckGrpcBlock(b, ep, want[i], prev); err != nil {
					return fmt.Errorf("%s: StreamBlocks block %d: %v", where, b.Slot, err)
				}
			}
			if skipped {
				st["blocks-range-with-skipped-slot"]++
			}
			if len(want) > 0 && len(want) < len(inRange) {
				st["blocks-filter-accepts-and-rejects"]++
			}
			continue
		}
		// --- StreamTransactions
		req := &old_faithful_grpc.StreamTransactionsRequest{StartSlot: start, EndSlot: endPtr}
		vote, failed := vfBoolPtr(q.Vote), vfBoolPtr(q.Failed)
		if !q.NoFilter {
			req.Filter = &old_faithful_grpc.StreamTransactionsFilter{Vote: vote, Failed: failed, AccountInclude: vfKeys(q.Include), AccountExclude: vfKeys(q.Exclude), AccountRequired: vfKeys(q.Required)}
		}
		out := &vfTxStream{ctx: ctx}
		var err error
		vfWatched(where+": StreamTransactions", func() { err = l.multi.StreamTransactions(req, out) })
		cancel()
		if err != nil {
			return fmt.Errorf("%s filter %+v: StreamTransactions failed: %v", where, q, err)
		}
		var want []vfC19Tx
		total := 0
		for _, b := range inRange {
			for _, t := range b.Txs {
				total++
				keep := true
				if !q.NoFilter {
					if vote != nil && !*vote && t.SimpleVote {
						keep = false
					}
					if failed != nil && !*failed && t.Failed {
						keep = false
					}
					if len(q.Include) > 0 {
						any := false
						for _, a := range q.Include {
							if vfC19mentions(t, cargen.Acct(a)) {
								any = true
							}
						}
						if !any {
							keep = false
						}
					}
					for _, a := range q.Exclude {
						if vfC19mentions(t, cargen.Acct(a)) {
							keep = false
						}
					}
					for _, a := range q.Required {
						if !vfC19mentions(t, cargen.Acct(a)) {
							keep = false
						}
					}
				}
				if keep {
					want = append(want, vfC19Tx{t, b.Slot})
				}
				if !q.NoFilter && vote != nil && !*vote && t.Spec != nil && t.Spec.VoteAt > 0 {
					st["vote-false-over-multi-instruction-vote-program-tx"]++
				}
			}
		}
		var got []*old_faithful_grpc.TransactionResponse
		for _, m := range out.out {
			if m.Transaction != nil && len(m.Transaction.Transaction) > 0 {
				got = append(got, m) // messages carrying no transaction (placeholder when nothing matched) are ignored
			}
		}
		desc := fmt.Sprintf("%s filter{nofilter=%v vote=%d failed=%d include=%v exclude=%v required=%v}", where, q.NoFilter, q.Vote, q.Failed, q.Include, q.Exclude, q.Required)
		var sigs []string
		for _, m := range got {
			var tx solana.Transaction
			if err := tx.UnmarshalWithDecoder(newBinDecoder(m.Transaction.Transaction)); err != nil || len(tx.Signatures) == 0 {
				return fmt.Errorf("%s: a streamed transaction does not decode: %v", desc, err)
			}
			sigs = append(sigs, tx.Signatures[0].String())
		}
		outTx[qi] = sigs
		if len(got) != len(want) {
			return fmt.Errorf("%s: %d transactions streamed, %d of the %d archived transactions of the range satisfy the filter", desc, len(got), len(want), total)
		}
		// order: ascending slot and position (positions only when recorded)
		posKnown := true
		for _, w := range want {
			if !w.tx.HasPos {
				posKnown = false
			}
		}
		if !posKnown {
			// compare per slot as sets, slots ascending
			sort.SliceStable(want, func(i, j int) bool {
				if want[i].slot != want[j].slot {
					return want[i].slot < want[j].slot
				}
				return want[i].tx.Sig.String() < want[j].tx.Sig.String()
			})
			type gs struct {
				sig  string
				slot uint64
				m    *old_faithful_grpc.TransactionResponse
			}
			var g2 []gs
			lastSlot := uint64(0)
			for i, m := range got {
				slot := m.Slot
				if slot == 0 {
					// the block-scan path does not fill the slot: recover it from the ground truth
					for _, w := range want {
						if w.tx.Sig.String() == sigs[i] {
							slot = w.slot
						}
					}
				}
				if slot < lastSlot {
					return fmt.Errorf("%s: streamed transactions are not in ascending slot order", desc)
				}
				lastSlot = slot
				g2 = append(g2, gs{sigs[i], slot, m})
			}
			sort.SliceStable(g2, func(i, j int) bool {
				if g2[i].slot != g2[j].slot {
					return g2[i].slot < g2[j].slot
				}
				return g2[i].sig < g2[j].sig
			})
			for i := range g2 {
				got[i], sigs[i] = g2[i].m, g2[i].sig
			}
		}
		for i, m := range got {
			w := want[i]
			if sigs[i] != w.tx.Sig.String() {
				return fmt.Errorf("%s: streamed transaction %d is %s, expected %s (slot %d position %d)", desc, i, sigs[i], w.tx.Sig, w.slot, w.tx.Pos)
			}
			if !bytes.Equal(m.Transaction.Transaction, w.tx.TxBytes) || !bytes.Equal(m.Transaction.Meta, w.tx.MetaRaw) {
				return fmt.Errorf("%s: payload of streamed transaction %d differs from the archive", desc, i)
			}
			if m.BlockTime != w.tx.Blocktime {
				return fmt.Errorf("%s: block time %d of streamed transaction %d, archived %d", desc, m.BlockTime, i, w.tx.Blocktime)
			}
		}
		if skipped {
			st["tx-range-with-skipped-slot"]++
		}
		if len(want) > 0 && len(want) < total {
			st["tx-filter-accepts-and-rejects"]++
			if skipped && len(inRange) >= 2 {
				st["nontrivial"]++
			}
		}
		if len(inRange) > 0 {
			eps := map[uint64]bool{}
			for _, b := range inRange {
				eps[b.Slot/cargen.SlotsPerEpoch] = true
			}
			if len(eps) >= 2 {
				st["range-across-epochs"]++
				// an included account that no transaction of a newer epoch of the range mentions (it is not in that
				// epoch's address index at all) while an older epoch of the range has matching transactions
				if !q.NoFilter {
					for _, a := range q.Include {
						absentNewer := uint64(0)
						for _, ep := range l.eps {
							if !eps[ep.Spec.Epoch] {
								continue
							}
							any := false
							for _, t := range ep.Txs {
								if vfC19mentions(t, cargen.Acct(a)) {
									any = true
								}
							}
							if !any && ep.Spec.Epoch > absentNewer {
								absentNewer = ep.Spec.Epoch
							}
						}
						for _, w := range want {
							if absentNewer > 0 && w.slot/cargen.SlotsPerEpoch < absentNewer && vfC19mentions(w.tx, cargen.Acct(a)) {
								st["include-account-absent-from-newer-epoch"]++
								break
							}
						}
					}
				}
			}
		}
	}
	return nil
}

func vfC19eval(c *vfC19Case, st map[string]int) error {
	withIdx := map[int][]string{}
	without := map[int][]string{}
	if err := vfC19run(c, false, st, without); err != nil {
		return err
	}
	if err := vfC19run(c, true, st, withIdx); err != nil {
		return err
	}
	// the set of streamed transactions does not depend on whether an address index is loaded
	for qi, a := range without {
		b := withIdx[qi]
		x := append([]string{}, a...)
		y := append([]string{}, b...)
		sort.Strings(x)
		sort.Strings(y)
		if fmt.Sprint(x) != fmt.Sprint(y) {
			return fmt.Errorf("query %d: %d transactions streamed without an address index, %d with it", qi, len(a), len(b))
		}
	}
	return nil
}

// vfC19retire rewrites the epoch spec so that no transaction mentions the given accounts of the universe.
func vfC19retire(s *cargen.EpochSpec, retired []int, universe int) {
	ban := map[int]bool{}
	for _, a := range retired {
		ban[a] = true
	}
	if len(ban) >= universe {
		return
	}
	for bi := range s.Blocks {
		for ei := range s.Blocks[bi].Entries {
			txs := s.Blocks[bi].Entries[ei].Txs
			for ti := range txs {
				used := map[int]bool{}
				fix := func(in []int) []int {
					var out []int
					for _, a := range in {
						for ban[a] {
							a = (a + 1) % universe
						}
						if !used[a] {
							used[a] = true
							out = append(out, a)
						}
					}
					return out
				}
				txs[ti].Accounts = fix(txs[ti].Accounts)
				txs[ti].LoadedW = fix(txs[ti].LoadedW)
				txs[ti].LoadedR = fix(txs[ti].LoadedR)
			}
		}
	}
}

func vfC19opts() cargen.GenOpts {
	o := cargen.DefaultOpts()
	o.MaxBlocks = 8
	o.MinBlocks = 2
	o.BigFrames = false
	o.NoMetaOK = false // the failed flag is only defined for transactions with metadata
	o.AllowEmpty = false
	o.EmptyEntries = true
	o.Universe = 6
	o.MaxGap = 4
	return o
}

func vfC19genQuery(rt *rapid.T, retired []int) vfC19Query {
	q := vfC19Query{}
	q.Blocks = rapid.IntRange(0, 3).Draw(rt, "blocks") == 0
	q.Start = rapid.IntRange(0, 200).Draw(rt, "start")
	q.Len = rapid.SampledFrom([]int{-1, 0, 1, 3, 10, 30, 100, 700}).Draw(rt, "len")
	q.EdgeStart = rapid.IntRange(0, 2).Draw(rt, "edgeStart") == 0
	q.NoFilter = rapid.IntRange(0, 5).Draw(rt, "noFilter") == 0
	q.Vote = rapid.IntRange(0, 2).Draw(rt, "vote")
	q.Failed = rapid.IntRange(0, 2).Draw(rt, "failed")
	acc := rapid.SliceOfNDistinct(rapid.IntRange(0, 6), 0, 3, rapid.ID[int]) // 6 = an account nobody mentions
	if rapid.Bool().Draw(rt, "hasInclude") {
		q.Include = acc.Draw(rt, "include")
	}
	if !q.Blocks {
		if rapid.IntRange(0, 2).Draw(rt, "hasExclude") == 0 {
			q.Exclude = acc.Draw(rt, "exclude")
		}
		if rapid.IntRange(0, 2).Draw(rt, "hasRequired") == 0 {
			q.Required = rapid.SliceOfNDistinct(rapid.IntRange(0, 6), 0, 2, rapid.ID[int]).Draw(rt, "required")
		}
	}
	if q.EdgeStart && len(retired) > 0 && rapid.Bool().Draw(rt, "includeRetired") {
		// only an account that some later epoch never mentions
		q.NoFilter, q.Blocks = false, false
		q.Include, q.Exclude, q.Required = []int{rapid.SampledFrom(retired).Draw(rt, "retiredAcct")}, nil, nil
	}
	return q
}

func TestVfC19(t *testing.T) {
	run := vfh.Begin("C19", "streams")
	defer run.End(t)
	vfArmWatch(run, "C19")
	run.Require("tx-range-with-skipped-slot", "tx-filter-accepts-and-rejects", "blocks-range-with-skipped-slot", "range-across-epochs", "nontrivial", "include-account-absent-from-newer-epoch", "vote-false-over-multi-instruction-vote-program-tx")
	for _, p := range vfh.ReplayFiles("C19", "streams") {
		var c vfC19Case
		if err := vfh.LoadCaseFile(p, &c); err != nil {
			t.Fatalf("regress %s: %v", p, err)
		}
		run.SetLast(&c)
		if err, _ := vfh.Catch(func() error { return vfC19eval(&c, map[string]int{}) }); err != nil {
			t.Fatalf("regression case %s: C19 violated: %v", p, err)
		}
		run.Class("regress-replayed")
	}
	opts := vfC19opts()
	rapid.Check(t, func(rt *rapid.T) {
		c := &vfC19Case{}
		ne := rapid.SampledFrom([]int{1, 2, 2, 3}).Draw(rt, "epochs")
		base := uint64(rapid.IntRange(0, 3).Draw(rt, "baseEpoch"))
		adjacent := rapid.IntRange(0, 3).Draw(rt, "adjacent") > 0
		var retiredLater []int
		for i := 0; i < ne; i++ {
			s := cargen.Gen(rt, opts)
			s.Epoch = base
			if adjacent {
				base++
			} else {
				base += uint64(rapid.IntRange(1, 2).Draw(rt, "epochGap"))
			}
			if i > 0 && rapid.IntRange(0, 3).Draw(rt, "nearEdge") > 0 {
				// put the first block close to the start of the epoch so that ranges can cross the boundary
				s.Blocks[0].Gap = rapid.IntRange(0, 3).Draw(rt, "edgeGap")
			}
			if rapid.Bool().Draw(rt, "retire") {
				// some accounts of the universe are never mentioned in this epoch (they are missing from its address index)
				ret := rapid.SliceOfNDistinct(rapid.IntRange(0, opts.Universe-1), 1, 3, rapid.ID[int]).Draw(rt, "retired")
				vfC19retire(s, ret, opts.Universe)
				if i > 0 {
					retiredLater = append(retiredLater, ret...)
				}
			}
			c.Specs = append(c.Specs, s)
		}
		// last block of the first epoch near its end in some cases
		for i := 0; i+1 < ne; i++ {
			if adjacent && rapid.IntRange(0, 3).Draw(rt, "tailNearEdge") > 0 {
				c.Specs[i].Blocks[0].Gap = cargen.SlotsPerEpoch - 5000 + 4900 + rapid.IntRange(0, 60).Draw(rt, "tailGap")
			}
		}
		nq := rapid.IntRange(4, 14).Draw(rt, "queries")
		for i := 0; i < nq; i++ {
			c.Queries = append(c.Queries, vfC19genQuery(rt, retiredLater))
		}
		run.SetLast(c)
		st := map[string]int{}
		err, panicked := vfh.Catch(func() error { return vfC19eval(c, st) })
		var cls []string
		for k := range st {
			cls = append(cls, k)
		}
		run.Case(c, st["nontrivial"] > 0, map[string]any{"epochs": len(c.Specs), "queries": c.Queries[:min(3, len(c.Queries))], "stats": st}, cls...)
		if err != nil {
			if panicked {
				rt.Fatalf("C19 violated: handler panicked: %v", err)
			}
			rt.Fatalf("C19 violated: %v", err)
		}
	})
}

func TestVfReplayC19(t *testing.T) {
	var c vfC19Case
	if !vfh.LoadReplay(t, &c) {
		t.Skip("no VERIF_REPLAY")
	}
	if err, _ := vfh.Catch(func() error { return vfC19eval(&c, map[string]int{}) }); err != nil {
		t.Fatalf("C19 violated: %v", err)
	}
}
