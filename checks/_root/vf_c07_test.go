package main

// C07 (handler level): JSON-RPC getSignaturesForAddress over several loaded
// epochs lists the newest-first history slice in order.

import (
	"fmt"
	"os"
	"path/filepath"
	"sort"
	"testing"

	"github.com/gagliardetto/solana-go"
	"github.com/rpcpool/yellowstone-faithful/zz_verif/cargen"
	"github.com/rpcpool/yellowstone-faithful/zz_verif/vfh"
	"pgregory.net/rapid"
)

type vfC07Query struct {
	Addr   int
	Limit  int // 0 = omitted
	Before int // index into the address history, -1 none
	Until  int
}

type vfC07Case struct {
	Specs   []*cargen.EpochSpec
	Queries []vfC07Query
	Repeat  int
}

// vfMentions: what the address indexer can see of a transaction.
func vfMentions(tx *cargen.TxInfo, k solana.PublicKey) bool {
	for _, a := range tx.Static {
		if a == k {
			return true
		}
	}
	if tx.MetaRaw != nil {
		for _, a := range tx.LoadedW {
			if a == k {
				return true
			}
		}
		for _, a := range tx.LoadedR {
			if a == k {
				return true
			}
		}
	}
	return false
}

// vfHistory: newest epoch first, newest transaction first inside an epoch.
func vfHistory(eps []*cargen.Epoch, k solana.PublicKey) []*cargen.TxInfo {
	sorted := append([]*cargen.Epoch{}, eps...)
	sort.Slice(sorted, func(i, j int) bool { return sorted[i].Num > sorted[j].Num })
	var out []*cargen.TxInfo
	for _, ep := range sorted {
		for i := len(ep.Txs) - 1; i >= 0; i-- {
			if vfMentions(ep.Txs[i], k) {
				out = append(out, ep.Txs[i])
			}
		}
	}
	return out
}

type vfLoaded struct {
	dir   string
	envs  []*vfEpochEnv
	eps   []*cargen.Epoch
	multi *MultiEpoch
}

func (l *vfLoaded) Close() {
	// The epoch search of getTransaction returns with the first hit and lets the searches of the other epochs run
	// on; closing an epoch (unmapping its index files) under such a straggler faults the process - the known
	// finding of C09 (epoch-closed-under-inflight-read). Here the epochs are closed only once they are idle.
	vfQuiesce()
	if l.multi != nil {
		l.multi.Close()
	}
	for _, e := range l.envs {
		e.Close()
	}
	os.RemoveAll(l.dir)
}

// vfLoadCarOverHTTP: the next vfLoadEpochs serves the CAR files from a loopback HTTP server, so that the epochs
// read them through the remote ReaderAt path instead of the local-file path (set and reset by the caller).
var vfLoadCarOverHTTP bool

// vfLoadEpochs builds and loads the given epoch specs into a MultiEpoch.
func vfLoadEpochs(specs []*cargen.EpochSpec, gsfa bool, opts *Options) (*vfLoaded, error) {
	l := &vfLoaded{dir: vfh.TmpDir("epochs")}
	if opts == nil {
		opts = &Options{EpochSearchConcurrency: 2}
	}
	l.multi = NewMultiEpoch(opts)
	cache := vfNewCache()
	seen := map[uint64]bool{}
	for i, s := range specs {
		if seen[s.Epoch] {
			continue
		}
		seen[s.Epoch] = true
		ep, err := cargen.Build(s)
		if err != nil {
			return l, fmt.Errorf("harness: %v", err)
		}
		if len(ep.Blocks) == 0 || len(ep.Txs) == 0 {
			continue
		}
		env, err := vfBuildEpoch(filepath.Join(l.dir, fmt.Sprintf("e%d", i)), ep, vfBuildOpts{Gsfa: gsfa, HTTPCar: vfLoadCarOverHTTP})
		if err != nil {
			return l, fmt.Errorf("building epoch %d: %v", s.Epoch, err)
		}
		l.envs = append(l.envs, env)
		l.eps = append(l.eps, ep)
		e, err := env.Load(cache)
		if err != nil {
			return l, fmt.Errorf("loading epoch %d: %v", s.Epoch, err)
		}
		if err := l.multi.AddEpoch(e.Epoch(), e); err != nil {
			return l, err
		}
	}
	return l, nil
}

func vfC07eval(c *vfC07Case, st map[string]int) error {
	l, err := vfLoadEpochs(c.Specs, true, nil)
	defer l.Close()
	if err != nil {
		return err
	}
	if len(l.eps) == 0 {
		return nil
	}
	h := newMultiEpochHandler(l.multi, nil)
	for qi, q := range c.Queries {
		addr := cargen.Acct(q.Addr)
		hist := vfHistory(l.eps, addr)
		opt := map[string]any{}
		limit := 1000
		if q.Limit > 0 {
			opt["limit"] = q.Limit
			limit = q.Limit
		}
		start := 0
		if q.Before >= 0 && len(hist) > 0 {
			b := q.Before % len(hist)
			opt["before"] = hist[b].Sig.String()
			start = b + 1
		}
		end := len(hist)
		if q.Until >= 0 && len(hist) > 0 {
			u := q.Until % len(hist)
			opt["until"] = hist[u].Sig.String()
			if u >= start {
				end = u + 1
			}
		}
		var want []*cargen.TxInfo
		for i := start; i < end && len(want) < limit; i++ {
			want = append(want, hist[i])
		}
		epochsInWant := map[uint64]bool{}
		for _, t := range want {
			epochsInWant[t.Slot/cargen.SlotsPerEpoch] = true
		}
		if len(epochsInWant) >= 2 {
			st["result-spans-epochs"]++
			// ... with a loaded epoch in between in which the address never appears
			var lo, hi uint64 = ^uint64(0), 0
			for e := range epochsInWant {
				lo, hi = min(lo, e), max(hi, e)
			}
			for _, ep := range l.eps {
				if ep.Num > lo && ep.Num < hi && !epochsInWant[ep.Num] {
					st["result-spans-epoch-without-the-address"]++
					break
				}
			}
		}
		if len(want) > 0 && len(want) < len(hist) {
			st["strict-subrange"]++
		}
		if len(hist) == 0 {
			st["address-without-history"]++
		}
		rep := c.Repeat
		if rep < 1 {
			rep = 1
		}
		for r := 0; r < rep; r++ {
			resp := vfCall(h, "getSignaturesForAddress", addr.String(), opt)
			if resp.JSON == nil {
				return fmt.Errorf("query %d: response is not JSON: %s", qi, vfh.Short(string(resp.Body), 200))
			}
			if e, ok := resp.JSON["error"]; ok && e != nil {
				return fmt.Errorf("query %d (address %s, %v) over %d loaded epochs failed: %v", qi, addr, opt, len(l.eps), e)
			}
			arr, ok := resp.JSON["result"].([]any)
			if !ok {
				return fmt.Errorf("query %d: result is not an array: %s", qi, vfh.Short(string(resp.Body), 200))
			}
			if len(arr) != len(want) {
				return fmt.Errorf("query %d (address %s, %v): %d entries returned, expected %d of a history of %d", qi, addr, opt, len(arr), len(want), len(hist))
			}
			for i, x := range arr {
				m, _ := x.(map[string]any)
				w := want[i]
				if m == nil || m["signature"] != w.Sig.String() {
					return fmt.Errorf("query %d (address %s, %v) attempt %d: entry %d is %v, expected signature %s (slot %d) - the response is not the newest-first history slice", qi, addr, opt, r, i, m["signature"], w.Sig, w.Slot)
				}
				if s, _ := m["slot"].(float64); uint64(s) != w.Slot {
					return fmt.Errorf("query %d entry %d: slot %v, expected %d", qi, i, m["slot"], w.Slot)
				}
				if w.Blocktime == 0 {
					if m["blockTime"] != nil {
						return fmt.Errorf("query %d entry %d: blockTime %v, expected null", qi, i, m["blockTime"])
					}
				} else if bt, _ := m["blockTime"].(float64); int64(bt) != w.Blocktime {
					return fmt.Errorf("query %d entry %d: blockTime %v, expected %d", qi, i, m["blockTime"], w.Blocktime)
				}
				if w.MetaRaw != nil {
					if w.Failed && m["err"] == nil {
						return fmt.Errorf("query %d entry %d: failed transaction listed with err null", qi, i)
					}
					if !w.Failed && m["err"] != nil {
						return fmt.Errorf("query %d entry %d: successful transaction listed with err %v", qi, i, m["err"])
					}
				}
			}
		}
	}
	return nil
}

func TestVfC07Handler(t *testing.T) {
	run := vfh.Begin("C07", "handler")
	defer run.End(t)
	vfArmWatch(run, "C07")
	run.Require("result-spans-epochs", "strict-subrange", "epochs>=2", "result-spans-epoch-without-the-address")
	for _, p := range vfh.ReplayFiles("C07", "handler") {
		var c vfC07Case
		if err := vfh.LoadCaseFile(p, &c); err != nil {
			t.Fatalf("regress %s: %v", p, err)
		}
		run.SetLast(&c)
		if err, _ := vfh.Catch(func() error { return vfC07eval(&c, map[string]int{}) }); err != nil {
			t.Fatalf("regression case %s: C07 violated: %v", filepath.Base(p), err)
		}
		run.Class("regress-replayed")
	}
	opts := cargen.DefaultOpts()
	opts.MaxBlocks = 6
	opts.BigFrames = false
	opts.Universe = 4
	rapid.Check(t, func(rt *rapid.T) {
		c := &vfC07Case{Repeat: 8}
		ne := rapid.IntRange(1, 4).Draw(rt, "epochs")
		used := map[uint64]bool{}
		retiredIn := map[uint64][]int{}
		for i := 0; i < ne; i++ {
			s := cargen.Gen(rt, opts)
			if used[s.Epoch] {
				continue
			}
			used[s.Epoch] = true
			if rapid.Bool().Draw(rt, "retire") {
				// some addresses never appear in this epoch (they are missing from its address index)
				ret := rapid.SliceOfNDistinct(rapid.IntRange(0, opts.Universe-1), 1, 2, rapid.ID[int]).Draw(rt, "retired")
				vfC19retire(s, ret, opts.Universe)
				retiredIn[s.Epoch] = ret
			}
			c.Specs = append(c.Specs, s)
		}
		var retiredMid []int
		for e, ret := range retiredIn {
			older, newer := false, false
			for o := range used {
				older, newer = older || o < e, newer || o > e
			}
			if older && newer {
				retiredMid = append(retiredMid, ret...)
			}
		}
		sort.Ints(retiredMid)
		nq := rapid.IntRange(1, 6).Draw(rt, "queries")
		for i := 0; i < nq; i++ {
			addrGen := rapid.IntRange(0, opts.Universe) // Universe itself = an address without history
			if len(retiredMid) > 0 && rapid.Bool().Draw(rt, "askRetired") {
				addrGen = rapid.SampledFrom(retiredMid) // an address that is absent from an epoch that has older and newer neighbours
			}
			c.Queries = append(c.Queries, vfC07Query{
				Addr:   addrGen.Draw(rt, "addr"),
				Limit:  rapid.SampledFrom([]int{0, 1, 2, 3, 5, 1000}).Draw(rt, "limit"),
				Before: rapid.IntRange(-1, 12).Draw(rt, "before"),
				Until:  rapid.IntRange(-1, 12).Draw(rt, "until"),
			})
		}
		run.SetLast(c)
		st := map[string]int{}
		err, panicked := vfh.Catch(func() error { return vfC07eval(c, st) })
		var cls []string
		for k := range st {
			cls = append(cls, k)
		}
		if len(c.Specs) >= 2 {
			cls = append(cls, "epochs>=2")
		}
		run.Case(c, st["result-spans-epochs"] > 0 && st["strict-subrange"] > 0, map[string]any{"epochs": len(c.Specs), "queries": c.Queries}, cls...)
		if err != nil {
			if panicked {
				rt.Fatalf("C07 violated: handler panicked: %v", err)
			}
			rt.Fatalf("C07 violated: %v", err)
		}
	})
}

func TestVfReplayC07Handler(t *testing.T) {
	var c vfC07Case
	if !vfh.LoadReplay(t, &c) {
		t.Skip("no VERIF_REPLAY")
	}
	if err, _ := vfh.Catch(func() error { return vfC07eval(&c, map[string]int{}) }); err != nil {
		t.Fatalf("C07 violated: %v", err)
	}
}
