package main

// Shared helpers of the /verif harnesses living in package main: building a
// synthetic epoch with the real `index all` code, loading it as an Epoch and
// calling the JSON-RPC handler in-process.

import (
	"bytes"
	"context"
	"encoding/json"
	"flag"
	"fmt"
	"io"
	"net/http"
	"net/http/httptest"
	"os"
	"path/filepath"
	"runtime"
	"strconv"
	"strings"
	"sync"
	"syscall"
	"time"

	"github.com/allegro/bigcache/v3"
	bin "github.com/gagliardetto/binary"
	hugecache "github.com/rpcpool/yellowstone-faithful/huge-cache"
	"github.com/rpcpool/yellowstone-faithful/indexes"
	"github.com/rpcpool/yellowstone-faithful/zz_verif/cargen"
	"github.com/rpcpool/yellowstone-faithful/zz_verif/vfh"
	"github.com/urfave/cli/v2"
	"github.com/valyala/fasthttp"
	"k8s.io/klog/v2"
)

var vfQuietOnce sync.Once

// vfQuiet silences klog and the progress output of the indexers.
func vfQuiet() {
	vfQuietOnce.Do(func() {
		fs := flag.NewFlagSet("klog", flag.ContinueOnError)
		klog.InitFlags(fs)
		fs.Set("logtostderr", "false")
		fs.Set("alsologtostderr", "false")
		fs.Set("stderrthreshold", "FATAL")
		klog.SetOutput(io.Discard)
		if os.Getenv("VERIF_KEEP_STDIO") == "" {
			if devnull, err := os.OpenFile(os.DevNull, os.O_WRONLY, 0); err == nil {
				// indexers print progress to stderr; the harness verdict goes to stdout
				os.Stderr = devnull
			}
		}
	})
}

func vfCliContext(ctx context.Context) *cli.Context {
	app := cli.NewApp()
	c := cli.NewContext(app, flag.NewFlagSet("vf", flag.ContinueOnError), nil)
	c.Context = ctx
	return c
}

func vfNewCache() *hugecache.Cache {
	conf := bigcache.DefaultConfig(5 * time.Minute)
	conf.Verbose = false
	conf.Shards = 16
	conf.MaxEntriesInWindow = 1000
	conf.MaxEntrySize = 500
	conf.CleanWindow = 0 // no janitor goroutine: it would keep every per-case cache alive for the life of the process
	c, err := hugecache.NewWithConfig(context.Background(), conf)
	if err != nil {
		panic(err)
	}
	return c
}

type vfEpochEnv struct {
	Dir        string
	Gen        *cargen.Epoch
	CarPath    string
	CarURI     string
	Paths      *IndexPaths
	GsfaDir    string
	ConfigPath string
	srv        *httptest.Server
}

func (e *vfEpochEnv) Close() {
	if e.srv != nil {
		e.srv.Close()
	}
}

// vfRangeServer serves a file over loopback HTTP with Range support (the real
// openCarStorage HTTP path is then used by the Epoch).
func vfRangeServer(path string) *httptest.Server {
	return httptest.NewServer(http.HandlerFunc(func(w http.ResponseWriter, r *http.Request) {
		http.ServeFile(w, r, path)
	}))
}

type vfBuildOpts struct {
	Gsfa    bool
	HTTPCar bool
	Network indexes.Network
}

// vfBuildEpoch writes the CAR and builds all indexes with the real code.
func vfBuildEpoch(dir string, ep *cargen.Epoch, o vfBuildOpts) (*vfEpochEnv, error) {
	vfQuiet()
	env := &vfEpochEnv{Dir: dir, Gen: ep}
	if err := os.MkdirAll(filepath.Join(dir, "idx"), 0o755); err != nil {
		return nil, err
	}
	if err := os.MkdirAll(filepath.Join(dir, "tmp"), 0o755); err != nil {
		return nil, err
	}
	env.CarPath = filepath.Join(dir, fmt.Sprintf("epoch-%d.car", ep.Num))
	if err := ep.WriteFile(env.CarPath); err != nil {
		return nil, err
	}
	if o.Network == "" {
		o.Network = indexes.NetworkMainnet
	}
	paths, _, err := createAllIndexes(context.Background(), o.Network, filepath.Join(dir, "tmp"), env.CarPath, filepath.Join(dir, "idx"))
	if err != nil {
		return nil, fmt.Errorf("createAllIndexes: %w", err)
	}
	env.Paths = paths
	env.CarURI = env.CarPath
	if o.HTTPCar {
		env.srv = vfRangeServer(env.CarPath)
		env.CarURI = env.srv.URL + "/epoch.car"
	}
	if o.Gsfa {
		gd, err := vfBuildGsfa(dir, env.CarPath, ep.Num, o.Network)
		if err != nil {
			return nil, err
		}
		env.GsfaDir = gd
	}
	if err := env.writeConfig(); err != nil {
		return nil, err
	}
	return env, nil
}

// vfBuildGsfa runs the real `index gsfa` CLI action in-process.
func vfBuildGsfa(dir, carPath string, epoch uint64, network indexes.Network) (string, error) {
	out := filepath.Join(dir, "gsfa-out")
	os.MkdirAll(out, 0o755)
	tmp := filepath.Join(dir, "gsfa-tmp")
	os.MkdirAll(tmp, 0o755)
	app := &cli.App{Name: "vf", Commands: []*cli.Command{newCmd_Index()}, ExitErrHandler: func(*cli.Context, error) {}}
	err := app.RunContext(context.Background(), []string{"vf", "index", "gsfa", fmt.Sprintf("--epoch=%d", epoch), "--network=" + string(network), "--tmp-dir=" + tmp, "--sigverify=false", carPath, out})
	if err != nil {
		return "", fmt.Errorf("index gsfa: %w", err)
	}
	m, _ := filepath.Glob(filepath.Join(out, "*gsfa*"))
	for _, p := range m {
		if st, err := os.Stat(p); err == nil && st.IsDir() {
			return p, nil
		}
	}
	return "", fmt.Errorf("index gsfa: no output directory in %s", out)
}

func (e *vfEpochEnv) configYAML(override map[string]string) string {
	get := func(k, def string) string {
		if v, ok := override[k]; ok {
			return v
		}
		return def
	}
	var sb strings.Builder
	fmt.Fprintf(&sb, "epoch: %d\nversion: 1\ndata:\n  car:\n    uri: %q\n", e.Gen.Num, get("car", e.CarURI))
	if r := get("filecoin_root", ""); r != "" {
		// a Filecoin section next to the CAR section (an epoch being moved to Filecoin retrieval)
		fmt.Fprintf(&sb, "  filecoin:\n    enable: true\n    root_cid: %s\n", r)
	}
	fmt.Fprintf(&sb, "indexes:\n")
	fmt.Fprintf(&sb, "  cid_to_offset_and_size:\n    uri: %q\n", get("cid_to_offset_and_size", e.Paths.CidToOffsetAndSize))
	fmt.Fprintf(&sb, "  slot_to_cid:\n    uri: %q\n", get("slot_to_cid", e.Paths.SlotToCid))
	fmt.Fprintf(&sb, "  sig_to_cid:\n    uri: %q\n", get("sig_to_cid", e.Paths.SignatureToCid))
	fmt.Fprintf(&sb, "  sig_exists:\n    uri: %q\n", get("sig_exists", e.Paths.SignatureExists))
	fmt.Fprintf(&sb, "  slot_to_blocktime:\n    uri: %q\n", get("slot_to_blocktime", e.Paths.SlotToBlocktime))
	if g := get("gsfa", e.GsfaDir); g != "" {
		fmt.Fprintf(&sb, "  gsfa:\n    uri: %q\n", g)
	}
	if e.Gen.Num == 0 {
		fmt.Fprintf(&sb, "genesis:\n  uri: %q\n", get("genesis", filepath.Join(os.Getenv("VERIF_REPO"), "radiance/genesis/testdata/mainnet/genesis.tar.bz2")))
	}
	return sb.String()
}

func (e *vfEpochEnv) writeConfig() error {
	e.ConfigPath = filepath.Join(e.Dir, fmt.Sprintf("epoch-%d.yaml", e.Gen.Num))
	return os.WriteFile(e.ConfigPath, []byte(e.configYAML(nil)), 0o644)
}

// vfLoadEpochFrom loads an Epoch from a config file with the real loader.
func vfLoadEpochFrom(configPath string, cache *hugecache.Cache) (*Epoch, error) {
	vfQuiet()
	cfg, err := LoadConfig(configPath)
	if err != nil {
		return nil, fmt.Errorf("LoadConfig: %w", err)
	}
	if err := cfg.Validate(); err != nil {
		return nil, fmt.Errorf("config.Validate: %w", err)
	}
	return NewEpochFromConfig(cfg, vfCliContext(context.Background()), cache, nil)
}

func (e *vfEpochEnv) Load(cache *hugecache.Cache) (*Epoch, error) {
	return vfLoadEpochFrom(e.ConfigPath, cache)
}

// ---------------------------------------------------------------------------
// in-process JSON-RPC

type vfRPCResponse struct {
	Status int
	Body   []byte
	JSON   map[string]any
}

// vfCall invokes the real HTTP handler with a raw body.
// vfWatch: hang detector for single in-process requests (armed by the checks whose property includes
// "the request is answered"). A request that has not returned after vfWatch.limit is examined: if its
// goroutine is parked on a channel / lock / wait group (it cannot make progress by itself any more) the
// case is reported as a violation with the goroutine's stack; if it is still running or in a system call
// the run ends inconclusive (exit 2) - slowness is never reported as a violation.
var vfWatch struct {
	run   *vfh.Run
	prop  string
	limit time.Duration
}

func vfArmWatch(run *vfh.Run, prop string) {
	vfWatch.run, vfWatch.prop = run, prop
	vfWatch.limit = time.Duration(vfh.EnvInt("VERIF_HANG_S", 90)) * time.Second
}

func vfWatchedBody(f func()) { f() }

// vfWatched runs f (one request) under the hang detector.
func vfWatched(where string, f func()) {
	if vfWatch.prop == "" {
		f()
		return
	}
	done := make(chan struct{})
	go func() {
		defer close(done)
		vfWatchedBody(f)
	}()
	tm := time.NewTimer(vfWatch.limit)
	defer tm.Stop()
	select {
	case <-done:
		return
	case <-tm.C:
	}
	buf := make([]byte, 8<<20)
	buf = buf[:runtime.Stack(buf, true)]
	state, stack := "", ""
	for _, g := range strings.Split(string(buf), "\n\n") {
		if strings.Contains(g, "vfWatchedBody") {
			stack = g
			if i, j := strings.Index(g, "["), strings.Index(g, "]"); i >= 0 && j > i {
				state = g[i+1 : j]
			}
			break
		}
	}
	parked := false
	for _, p := range []string{"chan send", "chan receive", "select", "semacquire", "sync.", "sleep"} {
		if strings.HasPrefix(state, p) {
			parked = true
		}
	}
	if !parked {
		fmt.Printf("VF-INCONCLUSIVE %s: no answer after %s but the request goroutine is %q\n%s\n", where, vfWatch.limit, state, stack)
		os.Exit(2)
	}
	if len(stack) > 3000 {
		stack = stack[:3000]
	}
	fmt.Printf("request goroutine:\n%s\n", stack)
	if vfWatch.run == nil { // replay mode
		fmt.Printf("%s violated: %s was not answered: after %s the request goroutine is parked in [%s]\n", vfWatch.prop, where, vfWatch.limit, state)
		os.Exit(1)
	}
	vfWatch.run.AbortLast(fmt.Sprintf("%s violated: %s was not answered: after %s the request goroutine is parked in [%s] and nothing can wake it", vfWatch.prop, where, vfWatch.limit, state))
}

func vfCallRaw(h func(*fasthttp.RequestCtx), method, path string, body []byte) *vfRPCResponse {
	var out *vfRPCResponse
	vfWatched(fmt.Sprintf("%s %s %s", method, path, vfh.Short(string(body), 160)), func() { out = vfCallRaw0(h, method, path, body) })
	return out
}

func vfCallRaw0(h func(*fasthttp.RequestCtx), method, path string, body []byte) *vfRPCResponse {
	var req fasthttp.Request
	req.Header.SetMethod(method)
	req.SetRequestURI(path)
	req.Header.SetContentType("application/json")
	req.SetBody(body)
	var ctx fasthttp.RequestCtx
	ctx.Init(&req, nil, nil)
	h(&ctx)
	out := &vfRPCResponse{Status: ctx.Response.StatusCode(), Body: append([]byte{}, ctx.Response.Body()...)}
	var m map[string]any
	if json.Unmarshal(out.Body, &m) == nil {
		out.JSON = m
	}
	return out
}

func vfCall(h func(*fasthttp.RequestCtx), method string, params ...any) *vfRPCResponse {
	if params == nil {
		params = []any{}
	}
	body, _ := json.Marshal(map[string]any{"jsonrpc": "2.0", "id": 1, "method": method, "params": params})
	return vfCallRaw(h, "POST", "/", body)
}

func newBinDecoder(b []byte) *bin.Decoder { return bin.NewBinDecoder(b) }

// vfCloseLeaked closes the descriptors of files under dir that nobody holds a handle for any more. A reader
// that fails to open a truncated gsfa directory leaves the files it had already opened to the garbage collector;
// these processes run with GOGC=off (no collection, no finalizers), so after some hundred failing opens per case
// the descriptor limit would be reached. With any other GOGC setting the finalizers do the work and nothing is
// closed here.
func vfCloseLeaked(dir string) {
	if os.Getenv("GOGC") != "off" {
		return
	}
	ents, _ := os.ReadDir("/proc/self/fd")
	for _, e := range ents {
		l, err := os.Readlink("/proc/self/fd/" + e.Name())
		if err == nil && strings.HasPrefix(l, dir+"/") {
			if n, err := strconv.Atoi(e.Name()); err == nil {
				syscall.Close(n)
			}
		}
	}
}

// vfQuiesce waits (up to 10 s) until no goroutine of an epoch search is left running.
func vfQuiesce() {
	buf := make([]byte, 4<<20)
	for i := 0; i < 2000; i++ {
		n := runtime.Stack(buf, true)
		if !bytes.Contains(buf[:n], []byte("yellowstone-faithful.FirstSuccess")) {
			return
		}
		time.Sleep(5 * time.Millisecond)
	}
}
