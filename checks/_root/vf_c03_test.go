package main

// C03: a request for an absent key is never answered with an object that
// belongs to a different key - in particular for absent keys whose 24-bit
// in-bucket hash collides with a stored key (found with the index's own hash).

import (
	"context"
	"crypto/sha256"
	"encoding/binary"
	"fmt"
	"os"
	"path/filepath"
	"strings"
	"sync"
	"testing"

	"github.com/gagliardetto/solana-go"
	"github.com/ipfs/go-cid"
	mh "github.com/multiformats/go-multihash"
	"github.com/rpcpool/yellowstone-faithful/compactindexsized"
	"github.com/rpcpool/yellowstone-faithful/indexes"
	old_faithful_grpc "github.com/rpcpool/yellowstone-faithful/old-faithful-proto/old-faithful-grpc"
	"github.com/rpcpool/yellowstone-faithful/zz_verif/cargen"
	"github.com/rpcpool/yellowstone-faithful/zz_verif/vfh"
	"google.golang.org/grpc/codes"
	"google.golang.org/grpc/status"
	"pgregory.net/rapid"
)

type vfC03Case struct {
	Specs    []*cargen.EpochSpec
	Seed     uint64
	Unloaded *cargen.EpochSpec // an epoch that is built but not loaded
	HTTPCar  bool              // the CAR files are read through the remote ReaderAt path (loopback HTTP) instead of local files
}

// vfIdxProbe knows which 24-bit hashes are occupied in every bucket of a compact index.
type vfIdxProbe struct {
	f       *os.File
	db      *compactindexsized.DB
	buckets []*compactindexsized.Bucket
	used    []map[uint64]bool
}

func vfOpenProbe(path string) (*vfIdxProbe, error) {
	f, err := os.Open(path)
	if err != nil {
		return nil, err
	}
	db, err := compactindexsized.Open(f)
	if err != nil {
		f.Close()
		return nil, err
	}
	p := &vfIdxProbe{f: f, db: db}
	for i := uint(0); i < uint(db.Header.NumBuckets); i++ {
		b, err := db.GetBucket(i)
		if err != nil {
			return nil, err
		}
		ents, err := b.Load(0)
		if err != nil {
			return nil, err
		}
		set := map[uint64]bool{}
		for _, e := range ents {
			set[e.Hash] = true
		}
		p.buckets = append(p.buckets, b)
		p.used = append(p.used, set)
	}
	return p, nil
}

func (p *vfIdxProbe) Close() { p.f.Close() }

// collides: the (absent) key would be answered by a stored entry.
func (p *vfIdxProbe) collides(key []byte) bool {
	bi := p.db.Header.BucketHash(key)
	return p.used[bi][p.buckets[bi].Hash(key)]
}

type vfSplit struct{ x uint64 }

func (s *vfSplit) next() uint64 {
	s.x += 0x9e3779b97f4a7c15
	z := s.x
	z = (z ^ (z >> 30)) * 0xbf58476d1ce4e5b9
	z = (z ^ (z >> 27)) * 0x94d049bb133111eb
	return z ^ (z >> 31)
}

func vfIsNotFoundJSON(resp *vfRPCResponse) (bool, string) {
	if resp.JSON == nil {
		return false, "response is not JSON: " + vfh.Short(string(resp.Body), 120)
	}
	if e, ok := resp.JSON["error"].(map[string]any); ok && e != nil {
		return true, fmt.Sprint(e["message"])
	}
	if r, ok := resp.JSON["result"]; ok && r == nil {
		return true, "null"
	}
	return false, vfh.Short(string(resp.Body), 200)
}

func vfC03eval(c *vfC03Case, st map[string]int) error {
	vfLoadCarOverHTTP = c.HTTPCar
	l, err := vfLoadEpochs(c.Specs, true, &Options{EpochSearchConcurrency: 2})
	vfLoadCarOverHTTP = false
	defer l.Close()
	if err != nil {
		return err
	}
	if len(l.eps) == 0 {
		return nil
	}
	h := newMultiEpochHandler(l.multi, nil)
	ctx := context.Background()
	rng := &vfSplit{x: c.Seed}
	addrKnown := vfh.KnownOpen("C03", "absent-address-colliding-in-pubkey-index")
	for ei, ep := range l.eps {
		env := l.envs[ei]
		epochObj, err := l.multi.GetEpoch(ep.Num)
		if err != nil {
			return fmt.Errorf("harness: %v", err)
		}
		checkSlot := func(slot uint64, class string) error {
			st[class]++
			resp := vfCall(h, "getBlock", slot, map[string]any{"encoding": "base64"})
			if nf, what := vfIsNotFoundJSON(resp); !nf {
				return fmt.Errorf("getBlock(%d) [%s; no block archived at this slot] answered with a block: %s", slot, class, what)
			}
			_, err := l.multi.GetBlock(ctx, &old_faithful_grpc.BlockRequest{Slot: slot})
			if err == nil {
				return fmt.Errorf("gRPC GetBlock(%d) [%s; no block archived at this slot] returned a block", slot, class)
			}
			b, _, err := epochObj.GetBlock(ctx, slot)
			if err == nil && uint64(b.Slot) != slot {
				return fmt.Errorf("Epoch.GetBlock(%d) [%s] returned the block of slot %d", slot, class, b.Slot)
			}
			return nil
		}
		// (a) skipped slots around the archived blocks
		first, last := ep.Blocks[0].Slot, ep.Blocks[len(ep.Blocks)-1].Slot
		n := 0
		for s := first; s <= last+3 && s <= ep.LastSlot() && n < 150; s++ {
			if ep.SlotIndex[s] == nil {
				n++
				if err := checkSlot(s, "skipped-slot"); err != nil {
					return err
				}
			}
		}
		// (b) absent slots colliding with a stored slot in the slot-to-cid index
		sp, err := vfOpenProbe(env.Paths.SlotToCid)
		if err != nil {
			return fmt.Errorf("harness: %v", err)
		}
		found := 0
		for s := ep.FirstSlot(); s <= ep.LastSlot() && found < 12; s++ {
			if ep.SlotIndex[s] != nil {
				continue
			}
			if sp.collides(indexes.Uint64tob(s)) {
				found++
				if err := checkSlot(s, "colliding-slot"); err != nil {
					sp.Close()
					return err
				}
			}
		}
		sp.Close()
		// (c) absent signatures colliding in the sig-to-cid index
		gp, err := vfOpenProbe(env.Paths.SignatureToCid)
		if err != nil {
			return fmt.Errorf("harness: %v", err)
		}
		known := map[solana.Signature]bool{}
		for _, t := range ep.Txs {
			known[t.Sig] = true
		}
		found = 0
		for trial := 0; trial < 3_000_000 && found < 4; trial++ {
			var sig solana.Signature
			for i := 0; i < 64; i += 8 {
				binary.LittleEndian.PutUint64(sig[i:], rng.next())
			}
			if known[sig] || !gp.collides(sig[:]) {
				continue
			}
			found++
			st["colliding-signature"]++
			resp := vfCall(h, "getTransaction", sig.String(), map[string]any{"encoding": "base64"})
			if nf, what := vfIsNotFoundJSON(resp); !nf {
				gp.Close()
				return fmt.Errorf("getTransaction(%s) [not archived; collides with a stored signature in the sig-to-cid index; %d epoch(s) loaded] answered with a transaction: %s", sig, len(l.eps), what)
			}
			if r, err := l.multi.GetTransaction(ctx, &old_faithful_grpc.TransactionRequest{Signature: sig[:]}); err == nil {
				gp.Close()
				return fmt.Errorf("gRPC GetTransaction(%s) [not archived; colliding; %d epoch(s) loaded] returned a transaction of slot %d", sig, len(l.eps), r.Slot)
			} else if status.Code(err) != codes.NotFound && status.Code(err) != codes.Internal {
				gp.Close()
				return fmt.Errorf("gRPC GetTransaction(colliding signature): unexpected status %v", err)
			}
			if tx, _, err := epochObj.GetTransaction(ctx, sig); err == nil {
				if s, _ := tx.Signature(); s != sig {
					gp.Close()
					return fmt.Errorf("Epoch.GetTransaction(%s) [not archived; colliding] returned the transaction %s", sig, s)
				}
			}
		}
		gp.Close()
		// a plainly absent signature
		{
			var sig solana.Signature
			for i := 0; i < 64; i += 8 {
				binary.LittleEndian.PutUint64(sig[i:], rng.next())
			}
			st["absent-signature"]++
			resp := vfCall(h, "getTransaction", sig.String())
			if nf, what := vfIsNotFoundJSON(resp); !nf {
				return fmt.Errorf("getTransaction(%s) [not archived] answered with a transaction: %s", sig, what)
			}
		}
		// (d) colliding CIDs in the cid-to-offset-and-size index
		cp, err := vfOpenProbe(env.Paths.CidToOffsetAndSize)
		if err != nil {
			return fmt.Errorf("harness: %v", err)
		}
		found = 0
		for trial := 0; trial < 2_000_000 && found < 4; trial++ {
			var b [8]byte
			binary.LittleEndian.PutUint64(b[:], rng.next())
			sum, _ := mh.Sum(b[:], mh.SHA2_256, -1)
			cc := cid.NewCidV1(cid.DagCBOR, sum)
			if !cp.collides(cc.Bytes()) {
				continue
			}
			found++
			st["colliding-cid"]++
			data, err := epochObj.GetNodeByCid(ctx, cc)
			if err == nil {
				got := sha256.Sum256(data)
				want, _ := mh.Decode(cc.Hash())
				if string(got[:]) != string(want.Digest) {
					cp.Close()
					return fmt.Errorf("GetNodeByCid(%s) [not in the CAR; collides in the cid index] returned %d bytes stored under a different CID", cc, len(data))
				}
			}
			// the same while the object it collides with is being fetched by other requests: readers of the stored
			// object and of the absent CID run side by side (an answer shared between requests must still be
			// checked against the CID of each request)
			if oas, oerr := epochObj.FindOffsetAndSizeFromCid(ctx, cc); oerr == nil && oas != nil {
				var stored *cargen.Obj
				for i := range ep.Objects {
					if ep.Objects[i].Offset == oas.Offset {
						stored = &ep.Objects[i]
					}
				}
				if stored != nil {
					st["colliding-cid-concurrent"]++
					var wg sync.WaitGroup
					bad := make(chan string, 16)
					want, _ := mh.Decode(cc.Hash())
					for g := 0; g < 8; g++ {
						wg.Add(1)
						go func(g int) {
							defer wg.Done()
							for it := 0; it < 300; it++ {
								if g%2 == 0 {
									epochObj.GetNodeByCid(ctx, stored.Cid)
									continue
								}
								data, err := epochObj.GetNodeByCid(ctx, cc)
								if err == nil {
									if got := sha256.Sum256(data); string(got[:]) != string(want.Digest) {
										select {
										case bad <- fmt.Sprintf("GetNodeByCid(%s) [not in the CAR; collides with %s in the cid index], asked while %s is being fetched by other requests, returned %d bytes stored under that other CID", cc, stored.Cid, stored.Cid, len(data)):
										default:
										}
										return
									}
								}
							}
						}(g)
					}
					wg.Wait()
					select {
					case msg := <-bad:
						cp.Close()
						return fmt.Errorf("%s", msg)
					default:
					}
				}
			}
		}
		cp.Close()
		// (d') codec twins: a CID with the multihash of an archived object but another codec names nothing in the
		// archive. Asked right after getBlock has served (and cached) the objects of that block.
		for bi := 0; bi < len(ep.Blocks) && bi < 3; bi++ {
			vfCall(h, "getBlock", ep.Blocks[bi].Slot, map[string]any{"encoding": "base64"})
			epochObj.GetBlock(ctx, ep.Blocks[bi].Slot)
			n := 0
			for i := range ep.Objects {
				o := &ep.Objects[i]
				if o.BlockIdx != bi || n >= 12 {
					continue
				}
				n++
				twin := cid.NewCidV1(cid.Raw, o.Cid.Hash())
				st["codec-twin-cid"]++
				if data, err := epochObj.GetNodeByCid(ctx, twin); err == nil {
					return fmt.Errorf("GetNodeByCid(%s) [nothing is archived under this CID: it is the raw-codec twin of %s] returned %d bytes after getBlock(%d)", twin, o.Cid, len(data), ep.Blocks[bi].Slot)
				}
			}
		}
		// (e) addresses without history, colliding in the gsfa pubkey index
		pkIdx := filepath.Join(env.GsfaDir, string(indexes.Kind_PubkeyToOffsetAndSize)+".index")
		pp, err := vfOpenProbe(pkIdx)
		if err != nil {
			return fmt.Errorf("harness: %v", err)
		}
		found = 0
		for trial := 0; trial < 4_000_000 && found < 2; trial++ {
			var pk solana.PublicKey
			for i := 0; i < 32; i += 8 {
				binary.LittleEndian.PutUint64(pk[i:], rng.next())
			}
			if !pp.collides(pk[:]) {
				continue
			}
			found++
			resp := vfCall(h, "getSignaturesForAddress", pk.String())
			if addrKnown {
				// open known finding: excluded from the verdict, confirmed separately
				st["excluded:colliding-address"]++
				if arr, ok := resp.JSON["result"].([]any); ok && len(arr) > 0 {
					st["known-reproduced:colliding-address"]++
				}
				continue
			}
			st["colliding-address"]++
			if arr, ok := resp.JSON["result"].([]any); ok && len(arr) > 0 {
				pp.Close()
				return fmt.Errorf("getSignaturesForAddress(%s) [address without history; collides with a stored address in the pubkey index] returned %d signatures of transactions that do not mention it", pk, len(arr))
			}
		}
		pp.Close()
		{
			// a plainly absent address
			var pk solana.PublicKey
			for i := 0; i < 32; i += 8 {
				binary.LittleEndian.PutUint64(pk[i:], rng.next())
			}
			st["absent-address"]++
			resp := vfCall(h, "getSignaturesForAddress", pk.String())
			if arr, ok := resp.JSON["result"].([]any); ok && len(arr) > 0 {
				return fmt.Errorf("getSignaturesForAddress(%s) [address without history] returned %d signatures", pk, len(arr))
			}
		}
	}
	// (f) keys of an epoch that is not loaded
	if c.Unloaded != nil {
		loaded := map[uint64]bool{}
		for _, ep := range l.eps {
			loaded[ep.Num] = true
		}
		if !loaded[c.Unloaded.Epoch] {
			other, err := cargen.Build(c.Unloaded)
			if err == nil && len(other.Blocks) > 0 {
				st["unloaded-epoch"]++
				b := other.Blocks[0]
				resp := vfCall(h, "getBlock", b.Slot)
				if nf, what := vfIsNotFoundJSON(resp); !nf {
					return fmt.Errorf("getBlock(%d) of an epoch that is not loaded answered with a block: %s", b.Slot, what)
				} else if !strings.Contains(what, "not available") {
					return fmt.Errorf("getBlock(%d) of an epoch that is not loaded: expected epoch-not-available, got %q", b.Slot, what)
				}
				for i, t := range other.Txs {
					if i >= 5 {
						break
					}
					resp := vfCall(h, "getTransaction", t.Sig.String())
					if nf, what := vfIsNotFoundJSON(resp); !nf {
						return fmt.Errorf("getTransaction(%s) of an epoch that is not loaded answered with a transaction: %s", t.Sig, what)
					}
				}
			}
		}
	}
	return nil
}

func vfC03opts() cargen.GenOpts {
	o := cargen.DefaultOpts()
	o.MaxBlocks = 4
	o.BigFrames = false
	return o
}

func TestVfC03(t *testing.T) {
	run := vfh.Begin("C03", "absent-keys")
	defer run.End(t)
	vfArmWatch(run, "C03")
	run.Require("skipped-slot", "colliding-slot", "colliding-signature", "colliding-cid", "colliding-cid-concurrent", "codec-twin-cid", "car-via-remote-readerat", "car-local-file", "single-epoch", "multi-epoch", "unloaded-epoch")
	addrKnown := vfh.KnownOpen("C03", "absent-address-colliding-in-pubkey-index")
	reproduced := 0
	if addrKnown {
		defer func() {
			// confirmation step of the open finding: only reported while it still reproduces
			if reproduced > 0 {
				run.KnownFinding("absent-address-colliding-in-pubkey-index", "getSignaturesForAddress for an address without history whose 24-bit in-bucket hash equals that of a stored address returns the stored address's signatures (reproduced in this run)")
			}
			run.Note("known_finding_colliding_address_reproduced", reproduced)
		}()
	} else {
		run.Require("colliding-address")
	}
	for _, p := range vfh.ReplayFiles("C03", "absent-keys") {
		var c vfC03Case
		if err := vfh.LoadCaseFile(p, &c); err != nil {
			t.Fatalf("regress %s: %v", p, err)
		}
		run.SetLast(&c)
		if err, _ := vfh.Catch(func() error { return vfC03eval(&c, map[string]int{}) }); err != nil {
			t.Fatalf("regression case %s: C03 violated: %v", p, err)
		}
		run.Class("regress-replayed")
	}
	opts := vfC03opts()
	rapid.Check(t, func(rt *rapid.T) {
		c := &vfC03Case{Seed: rapid.Uint64().Draw(rt, "seed")}
		ne := rapid.SampledFrom([]int{1, 1, 2, 3}).Draw(rt, "epochs")
		used := map[uint64]bool{}
		for i := 0; i < ne; i++ {
			s := cargen.Gen(rt, opts)
			if used[s.Epoch] {
				continue
			}
			used[s.Epoch] = true
			// many blocks and transactions so that colliding absent keys exist
			s.BulkBlocks = rapid.SampledFrom([]int{150, 300, 600}).Draw(rt, "bulkBlocks")
			s.BulkTxPerBlock = rapid.IntRange(1, 3).Draw(rt, "bulkTx")
			c.Specs = append(c.Specs, s)
		}
		c.Unloaded = cargen.Gen(rt, opts)
		c.HTTPCar = rapid.IntRange(0, 2).Draw(rt, "httpCar") == 0
		run.SetLast(c)
		st := map[string]int{}
		err, panicked := vfh.Catch(func() error { return vfC03eval(c, st) })
		var cls []string
		for k := range st {
			cls = append(cls, k)
		}
		if c.HTTPCar {
			cls = append(cls, "car-via-remote-readerat")
		} else {
			cls = append(cls, "car-local-file")
		}
		if len(c.Specs) == 1 {
			cls = append(cls, "single-epoch")
		} else {
			cls = append(cls, "multi-epoch")
		}
		reproduced += st["known-reproduced:colliding-address"]
		delete(st, "known-reproduced:colliding-address")
		nt := st["colliding-slot"]+st["colliding-signature"]+st["colliding-cid"]+st["colliding-address"] > 0
		run.ClassN("n-colliding-slots", st["colliding-slot"])
		run.ClassN("n-colliding-signatures", st["colliding-signature"])
		run.ClassN("n-colliding-cids", st["colliding-cid"])
		run.ClassN("n-colliding-addresses", st["colliding-address"])
		for k, v := range st {
			if strings.HasPrefix(k, "excluded:") {
				for i := 0; i < v; i++ {
					run.Excluded(strings.TrimPrefix(k, "excluded:"))
				}
			}
		}
		run.Case(c, nt, map[string]any{"epochs": len(c.Specs), "stats": st}, cls...)
		if err != nil {
			if panicked {
				rt.Fatalf("C03 violated: panic: %v", err)
			}
			rt.Fatalf("C03 violated: %v", err)
		}
	})
}

func TestVfReplayC03(t *testing.T) {
	var c vfC03Case
	if !vfh.LoadReplay(t, &c) {
		t.Skip("no VERIF_REPLAY")
	}
	if err, _ := vfh.Catch(func() error { return vfC03eval(&c, map[string]int{}) }); err != nil {
		t.Fatalf("C03 violated: %v", err)
	}
}
