package main

// C08: no HTTP or gRPC request can crash the server; it answers and keeps serving.

import (
	"context"
	"encoding/json"
	"fmt"
	"os"
	"path/filepath"
	"strings"
	"sync"
	"testing"
	"time"

	old_faithful_grpc "github.com/rpcpool/yellowstone-faithful/old-faithful-proto/old-faithful-grpc"
	"github.com/rpcpool/yellowstone-faithful/zz_verif/cargen"
	"github.com/rpcpool/yellowstone-faithful/zz_verif/vfh"
	"github.com/valyala/fasthttp"
	"google.golang.org/grpc/metadata"
	"pgregory.net/rapid"
)

// vfC08Req is one generated request (HTTP or gRPC).
type vfC08Req struct {
	Kind   string // "http" or a gRPC method name
	Server int    // 0: no epochs, 1: one epoch, 2: three epochs (with address index)
	// http
	Method string
	Path   string
	Body   string
	// grpc (json-encoded protobuf-ish description kept simple for replay)
	Slot     uint64
	EndSlot  *uint64
	Sig      []byte
	HasFlt   bool
	Vote     *bool
	Failed   *bool
	Include  []string
	Exclude  []string
	Required []string
	Stream   []vfC08Req // for "Get": sequence of sub-requests (Kind: GetBlock/GetTransaction/GetBlockTime/GetVersion/Nil)
}

type vfC08World struct {
	servers   []*vfLoaded
	handlers  []func(*fasthttp.RequestCtx)
	probeSlot []uint64
	slots     []uint64
	sigs      []string
	sigBytes  [][]byte
	addrs     []string
}

var (
	vfC08once  sync.Once
	vfC08world *vfC08World
	vfC08err   error
)

func vfC08specs() []*cargen.EpochSpec {
	mk := func(epoch uint64, seed uint64, txIndex bool) *cargen.EpochSpec {
		s := &cargen.EpochSpec{Epoch: epoch, Seed: seed, TxIndex: txIndex, ParentInPrev: true}
		for b := 0; b < 6; b++ {
			bs := cargen.BlockSpec{Gap: 1 + b%3, Blocktime: int64(1600000000 + b), HasHeight: b%2 == 0, Rewards: b % 3, RewardsSize: 2}
			for e := 0; e < 2; e++ {
				es := cargen.EntrySpec{NumHashes: 1}
				for t := 0; t < 2; t++ {
					tx := cargen.TxSpec{Seed: uint32(b*100 + e*10 + t), NSigs: 1 + t, Accounts: []int{(b + t) % 4, (b + e) % 4}, MetaSize: 60, MetaFrames: 1, Fanout: 2}
					switch (b + e + t) % 4 {
					case 0:
						tx.Vote = true
					case 1:
						tx.V0 = true
						tx.LoadedW = []int{2}
						tx.LoadedR = []int{3}
					case 2:
						tx.Failed = true
						tx.MetaSize = 900
						tx.MetaFrames = 3
					}
					es.Txs = append(es.Txs, tx)
				}
				bs.Entries = append(bs.Entries, es)
			}
			s.Blocks = append(s.Blocks, bs)
		}
		return s
	}
	return []*cargen.EpochSpec{mk(0, 11, true), mk(1, 22, false), mk(3, 33, true)}
}

func vfC08setup() (*vfC08World, error) {
	vfC08once.Do(func() {
		w := &vfC08World{}
		specs := vfC08specs()
		sets := [][]*cargen.EpochSpec{{}, {specs[2]}, specs}
		for _, set := range sets {
			l, err := vfLoadEpochs(set, true, &Options{EpochSearchConcurrency: 2})
			if err != nil {
				vfC08err = err
				return
			}
			w.servers = append(w.servers, l)
			w.handlers = append(w.handlers, newMultiEpochHandler(l.multi, nil))
			ps := uint64(0)
			if len(l.eps) > 0 {
				ps = l.eps[len(l.eps)-1].Blocks[1].Slot
			}
			w.probeSlot = append(w.probeSlot, ps)
		}
		for _, ep := range w.servers[2].eps {
			for _, b := range ep.Blocks {
				w.slots = append(w.slots, b.Slot, b.Slot+1)
			}
			for i, t := range ep.Txs {
				if i < 6 {
					w.sigs = append(w.sigs, t.Sig.String())
					w.sigBytes = append(w.sigBytes, append([]byte{}, t.Sig[:]...))
				}
			}
		}
		for i := 0; i < 5; i++ {
			w.addrs = append(w.addrs, cargen.Acct(i).String())
		}
		vfC08world = w
	})
	return vfC08world, vfC08err
}

// fake server streams
type vfBlockStream struct {
	ctx context.Context
	out []*old_faithful_grpc.BlockResponse
}

func (s *vfBlockStream) Send(r *old_faithful_grpc.BlockResponse) error {
	s.out = append(s.out, r)
	return nil
}
func (s *vfBlockStream) SetHeader(metadata.MD) error  { return nil }
func (s *vfBlockStream) SendHeader(metadata.MD) error { return nil }
func (s *vfBlockStream) SetTrailer(metadata.MD)       {}
func (s *vfBlockStream) Context() context.Context     { return s.ctx }
func (s *vfBlockStream) SendMsg(m any) error          { return nil }
func (s *vfBlockStream) RecvMsg(m any) error          { return nil }

type vfTxStream struct {
	ctx context.Context
	mu  sync.Mutex
	out []*old_faithful_grpc.TransactionResponse
}

func (s *vfTxStream) Send(r *old_faithful_grpc.TransactionResponse) error {
	s.mu.Lock()
	s.out = append(s.out, r)
	s.mu.Unlock()
	return nil
}
func (s *vfTxStream) SetHeader(metadata.MD) error  { return nil }
func (s *vfTxStream) SendHeader(metadata.MD) error { return nil }
func (s *vfTxStream) SetTrailer(metadata.MD)       {}
func (s *vfTxStream) Context() context.Context     { return s.ctx }
func (s *vfTxStream) SendMsg(m any) error          { return nil }
func (s *vfTxStream) RecvMsg(m any) error          { return nil }

func vfC08toGet(r *vfC08Req, id uint64) *old_faithful_grpc.GetRequest {
	g := &old_faithful_grpc.GetRequest{Id: id}
	switch r.Kind {
	case "GetBlock":
		g.Request = &old_faithful_grpc.GetRequest_Block{Block: &old_faithful_grpc.BlockRequest{Slot: r.Slot}}
	case "GetTransaction":
		g.Request = &old_faithful_grpc.GetRequest_Transaction{Transaction: &old_faithful_grpc.TransactionRequest{Signature: r.Sig}}
	case "GetBlockTime":
		g.Request = &old_faithful_grpc.GetRequest_BlockTime{BlockTime: &old_faithful_grpc.BlockTimeRequest{Slot: r.Slot}}
	case "GetVersion":
		g.Request = &old_faithful_grpc.GetRequest_Version{Version: &old_faithful_grpc.VersionRequest{}}
	}
	return g
}

// vfC08exec performs one request; any panic in the calling goroutine is returned as error.
func vfC08exec(w *vfC08World, r *vfC08Req) (what string, err error) {
	srv := w.servers[r.Server].multi
	ctx, cancel := context.WithTimeout(context.Background(), 20*time.Second)
	defer cancel()
	done := make(chan error, 1)
	go func() {
		defer func() {
			if p := recover(); p != nil {
				done <- fmt.Errorf("handler panicked: %v", p)
			}
		}()
		switch r.Kind {
		case "http":
			resp := vfCallRaw(w.handlers[r.Server], r.Method, r.Path, []byte(r.Body))
			if resp.Status < 100 || resp.Status > 599 {
				done <- fmt.Errorf("malformed HTTP status %d", resp.Status)
				return
			}
		case "GetBlock":
			srv.GetBlock(ctx, &old_faithful_grpc.BlockRequest{Slot: r.Slot})
		case "GetBlockTime":
			srv.GetBlockTime(ctx, &old_faithful_grpc.BlockTimeRequest{Slot: r.Slot})
		case "GetTransaction":
			srv.GetTransaction(ctx, &old_faithful_grpc.TransactionRequest{Signature: r.Sig})
		case "GetVersion":
			srv.GetVersion(ctx, &old_faithful_grpc.VersionRequest{})
		case "StreamBlocks":
			req := &old_faithful_grpc.StreamBlocksRequest{StartSlot: r.Slot, EndSlot: r.EndSlot}
			if r.HasFlt {
				req.Filter = &old_faithful_grpc.StreamBlocksFilter{AccountInclude: r.Include}
			}
			srv.StreamBlocks(req, &vfBlockStream{ctx: ctx})
		case "StreamTransactions":
			req := &old_faithful_grpc.StreamTransactionsRequest{StartSlot: r.Slot, EndSlot: r.EndSlot}
			if r.HasFlt {
				req.Filter = &old_faithful_grpc.StreamTransactionsFilter{Vote: r.Vote, Failed: r.Failed, AccountInclude: r.Include, AccountExclude: r.Exclude, AccountRequired: r.Required}
			}
			srv.StreamTransactions(req, &vfTxStream{ctx: ctx})
		case "Get":
			st := &vfGetStream{ctx: ctx}
			for i := range r.Stream {
				st.in = append(st.in, vfC08toGet(&r.Stream[i], uint64(i)))
			}
			srv.Get(st)
		}
		done <- nil
	}()
	select {
	case e := <-done:
		if e != nil {
			return r.Kind, e
		}
	case <-time.After(60 * time.Second):
		return r.Kind, fmt.Errorf("request did not return within 60s")
	}
	// the server keeps serving: a fixed probe still succeeds
	if r.Server > 0 {
		resp := vfCall(w.handlers[r.Server], "getBlock", w.probeSlot[r.Server])
		if resp.JSON == nil || resp.JSON["error"] != nil || resp.JSON["result"] == nil {
			return r.Kind, fmt.Errorf("after the request the probe getBlock(%d) no longer succeeds: %s", w.probeSlot[r.Server], vfh.Short(string(resp.Body), 160))
		}
	}
	return r.Kind, nil
}

// ---------------------------------------------------------------------------
// generators

func vfGenJSONValue(t *rapid.T, w *vfC08World, depth int) any {
	switch rapid.IntRange(0, 13).Draw(t, "valKind") {
	case 0:
		return nil
	case 1:
		return rapid.Bool().Draw(t, "b")
	case 2:
		return rapid.SampledFrom(w.slots).Draw(t, "slot")
	case 3:
		return rapid.SampledFrom([]any{0, 1, -1, 1.5, 1e30, -1e30, 18446744073709551615.0, 432000, 9007199254740993.0}).Draw(t, "num")
	case 4:
		return rapid.SampledFrom(w.sigs).Draw(t, "sig")
	case 5:
		return rapid.SampledFrom(w.addrs).Draw(t, "addr")
	case 6:
		return rapid.SampledFrom([]string{"", "0", "11111111111111111111111111111111", "not-base58-!!!", "O0Il", strings.Repeat("1", 88), strings.Repeat("z", 200), "base64", "json", "jsonParsed", "finalized"}).Draw(t, "str")
	case 7:
		return map[string]any{"encoding": rapid.SampledFrom([]any{"base58", "base64", "base64+zstd", "json", "jsonParsed", "binary", 7, nil, []any{}}).Draw(t, "enc")}
	case 8:
		m := map[string]any{}
		for _, k := range rapid.SliceOfNDistinct(rapid.SampledFrom([]string{"encoding", "commitment", "maxSupportedTransactionVersion", "transactionDetails", "rewards", "limit", "before", "until", "x"}), 0, 4, rapid.ID[string]).Draw(t, "keys") {
			if depth < 2 {
				m[k] = vfGenJSONValue(t, w, depth+1)
			}
		}
		return m
	case 9:
		if depth >= 2 {
			return []any{}
		}
		n := rapid.IntRange(0, 3).Draw(t, "n")
		arr := []any{}
		for i := 0; i < n; i++ {
			arr = append(arr, vfGenJSONValue(t, w, depth+1))
		}
		return arr
	case 10:
		return map[string]any{"limit": rapid.SampledFrom([]any{0, 1, -5, 1000, 1001, 1e12, "10", nil}).Draw(t, "limit"), "before": rapid.SampledFrom(append([]string{"", "xx"}, w.sigs...)).Draw(t, "before")}
	case 11:
		return rapid.Float64().Draw(t, "f")
	case 12:
		return rapid.StringN(0, 20, 40).Draw(t, "s")
	}
	return rapid.Int64().Draw(t, "i")
}

var vfC08Methods = []string{"getBlock", "getTransaction", "getSignaturesForAddress", "getBlockTime", "getGenesisHash", "getFirstAvailableBlock", "getSlot", "getVersion"}

func vfGenHTTP(t *rapid.T, w *vfC08World) (*vfC08Req, string) {
	r := &vfC08Req{Kind: "http", Method: "POST", Path: "/"}
	shape := rapid.SampledFrom([]string{"valid", "odd-options", "odd-options", "no-params", "null-params", "object-params", "wrong-types", "wrong-arity", "raw-garbage", "truncated", "batch", "other-method", "other-path", "api-path", "big-body", "empty-body"}).Draw(t, "shape")
	method := rapid.SampledFrom(vfC08Methods).Draw(t, "rpcMethod")
	req := map[string]any{"jsonrpc": "2.0", "id": rapid.SampledFrom([]any{1, "a", nil, 1.5}).Draw(t, "id"), "method": method}
	validParams := func() []any {
		switch method {
		case "getBlock", "getBlockTime":
			p := []any{rapid.SampledFrom(w.slots).Draw(t, "vslot")}
			if method == "getBlock" && rapid.Bool().Draw(t, "withOpt") {
				p = append(p, map[string]any{"encoding": rapid.SampledFrom([]string{"base58", "base64", "base64+zstd", "json"}).Draw(t, "venc")})
			}
			return p
		case "getTransaction":
			return []any{rapid.SampledFrom(w.sigs).Draw(t, "vsig")}
		case "getSignaturesForAddress":
			return []any{rapid.SampledFrom(w.addrs).Draw(t, "vaddr"), map[string]any{"limit": rapid.IntRange(1, 5).Draw(t, "vlimit")}}
		}
		return []any{}
	}
	switch shape {
	case "valid":
		req["params"] = validParams()
	case "odd-options":
		// a key that exists (so that the request gets past the lookup) with an options object in which every
		// documented member is, one by one, null / of another type / a boundary value
		p := validParams()[:min(1, len(validParams()))]
		keys := map[string][]string{
			"getBlock":                {"encoding", "commitment", "maxSupportedTransactionVersion", "transactionDetails", "rewards"},
			"getTransaction":          {"encoding", "commitment", "maxSupportedTransactionVersion"},
			"getSignaturesForAddress": {"limit", "before", "until", "commitment", "minContextSlot"},
		}[method]
		if len(keys) == 0 {
			keys = []string{"encoding", "commitment", "x"}
		}
		opt := map[string]any{}
		for _, k := range rapid.SliceOfNDistinct(rapid.SampledFrom(keys), 1, 3, rapid.ID[string]).Draw(t, "optKeys") {
			// null is the value most likely to slip through a type switch: a quarter of the draws
			opt[k] = rapid.SampledFrom([]any{nil, nil, nil, nil, nil, nil, true, false, 0, 1, -1, 1.5, 1e30, "", "json", "base64", "base58", "finalized", "full", "none", "signatures", "accounts", []any{}, map[string]any{}, w.sigs[0]}).Draw(t, "optVal")
		}
		req["params"] = append(p, opt)
	case "no-params":
	case "null-params":
		req["params"] = nil
	case "object-params":
		req["params"] = vfGenJSONValue(t, w, 1)
	case "wrong-types":
		n := rapid.IntRange(1, 3).Draw(t, "np")
		p := []any{}
		for i := 0; i < n; i++ {
			p = append(p, vfGenJSONValue(t, w, 0))
		}
		req["params"] = p
	case "wrong-arity":
		p := validParams()
		switch rapid.IntRange(0, 2).Draw(t, "arity") {
		case 0:
			p = []any{}
		case 1:
			p = append(p, vfGenJSONValue(t, w, 0), vfGenJSONValue(t, w, 0))
		case 2:
			if len(p) > 1 {
				p[0], p[1] = p[1], p[0]
			}
		}
		req["params"] = p
	case "other-method":
		req["method"] = rapid.SampledFrom([]any{"", "getBalance", "getblock", 5, nil, "getBlock\x00"}).Draw(t, "om")
		req["params"] = validParams()
	case "other-path":
		r.Method = rapid.SampledFrom([]string{"GET", "PUT", "POST", "DELETE", "OPTIONS"}).Draw(t, "hm")
		r.Path = rapid.SampledFrom([]string{"/health", "/metrics", "/", "/api", "/foo/bar", "/health/"}).Draw(t, "hp")
		req["params"] = validParams()
	case "api-path":
		r.Method = rapid.SampledFrom([]string{"GET", "GET", "POST"}).Draw(t, "am")
		tail := rapid.SampledFrom(append(append([]string{"", "abc", "-1", "18446744073709551616", "1/2", "%00", strings.Repeat("9", 40)}, w.sigs...), fmt.Sprint(w.slots[0]), fmt.Sprint(w.slots[1]))).Draw(t, "tail")
		r.Path = rapid.SampledFrom([]string{"/api/v1/slot-to-cid/", "/api/v1/sig-to-cid/", "/api/v1/", "/api/v1/other/"}).Draw(t, "ap") + tail
	}
	body, _ := json.Marshal(req)
	switch shape {
	case "raw-garbage":
		body = []byte(rapid.SampledFrom([]string{"", "{", "[]", "null", "42", "\"x\"", "{\"method\":", "\x00\x01\x02", "{\"jsonrpc\":\"2.0\",\"method\":\"getBlock\",\"params\":\"x\"}", "{\"method\":\"getBlock\",\"params\":{\"a\":1}}", "{\"method\":\"getTransaction\",\"id\":{},\"params\":[[]]}"}).Draw(t, "garbage"))
	case "truncated":
		req["params"] = validParams()
		b, _ := json.Marshal(req)
		body = b[:rapid.IntRange(0, len(b)).Draw(t, "cut")]
	case "batch":
		b1, _ := json.Marshal(req)
		body = []byte("[" + string(b1) + "," + string(b1) + "]")
	case "big-body":
		req["params"] = []any{strings.Repeat("A", rapid.SampledFrom([]int{900, 1100, 5000}).Draw(t, "big"))}
		body, _ = json.Marshal(req)
	case "empty-body":
		body = nil
	}
	r.Body = string(body)
	return r, "http:" + shape + ":" + method
}

func vfGenAccounts(t *rapid.T, w *vfC08World, label string) []string {
	n := rapid.IntRange(0, 3).Draw(t, label+"N")
	var out []string
	for i := 0; i < n; i++ {
		out = append(out, rapid.SampledFrom(append([]string{"", "not-a-key", "0", strings.Repeat("1", 50), "Vote111111111111111111111111111111111111111"}, w.addrs...)).Draw(t, label))
	}
	return out
}

func vfGenGrpc(t *rapid.T, w *vfC08World) (*vfC08Req, string) {
	kind := rapid.SampledFrom([]string{"GetBlock", "GetBlockTime", "GetTransaction", "GetVersion", "StreamBlocks", "StreamTransactions", "StreamTransactions", "Get"}).Draw(t, "grpc")
	r := &vfC08Req{Kind: kind}
	slot := func(label string) uint64 {
		if rapid.IntRange(0, 3).Draw(t, label+"Edge") == 0 {
			return rapid.SampledFrom([]uint64{0, 1, 431999, 432000, 1 << 40, ^uint64(0)}).Draw(t, label+"E")
		}
		return rapid.SampledFrom(w.slots).Draw(t, label)
	}
	r.Slot = slot("slot")
	switch kind {
	case "GetTransaction":
		r.Sig = rapid.OneOf(rapid.SampledFrom(w.sigBytes), rapid.SliceOfN(rapid.Byte(), 0, 100)).Draw(t, "sigBytes")
	case "StreamBlocks", "StreamTransactions":
		switch rapid.IntRange(0, 3).Draw(t, "endKind") {
		case 0:
		case 1:
			e := r.Slot + uint64(rapid.IntRange(0, 40).Draw(t, "span"))
			r.EndSlot = &e
		case 2:
			// end before start (never below zero: an end slot of ~2^64 makes the block scan run until the client gives up)
			e := r.Slot
			if r.Slot >= 5 {
				e = r.Slot - uint64(rapid.IntRange(1, 5).Draw(t, "neg"))
			}
			r.EndSlot = &e
		case 3:
			e := r.Slot + 432000 + uint64(rapid.IntRange(0, 50).Draw(t, "far"))
			if r.Slot > 1<<39 {
				e = r.Slot + 10
			}
			r.EndSlot = &e
		}
		r.HasFlt = rapid.IntRange(0, 3).Draw(t, "hasFilter") != 0
		if r.HasFlt {
			optBool := func(label string) *bool {
				switch rapid.IntRange(0, 2).Draw(t, label) {
				case 0:
					return nil
				case 1:
					b := true
					return &b
				}
				b := false
				return &b
			}
			r.Vote, r.Failed = optBool("vote"), optBool("failed")
			r.Include = vfGenAccounts(t, w, "include")
			if kind == "StreamTransactions" {
				r.Exclude = vfGenAccounts(t, w, "exclude")
				r.Required = vfGenAccounts(t, w, "required")
			}
		}
	case "Get":
		n := rapid.IntRange(0, 6).Draw(t, "streamLen")
		for i := 0; i < n; i++ {
			sub := vfC08Req{Kind: rapid.SampledFrom([]string{"GetBlock", "GetTransaction", "GetBlockTime", "GetVersion", "Nil"} /* "Nil": no oneof member set; a set member with a nil message cannot arrive over the wire */).Draw(t, "sub")}
			sub.Slot = slot("subSlot")
			sub.Sig = rapid.OneOf(rapid.SampledFrom(w.sigBytes), rapid.SliceOfN(rapid.Byte(), 0, 70)).Draw(t, "subSig")
			r.Stream = append(r.Stream, sub)
		}
	}
	return r, "grpc:" + kind
}

func TestVfC08(t *testing.T) {
	run := vfh.Begin("C08", "requests")
	defer run.End(t)
	w, err := vfC08setup()
	if err != nil {
		t.Fatalf("harness: building the servers failed: %v", err)
	}
	lastInput := filepath.Join(os.Getenv("VERIF_TMP"), "last-input.json")
	os.MkdirAll(filepath.Dir(lastInput), 0o755)
	evalOne := func(r *vfC08Req) error {
		if b, err := json.Marshal(r); err == nil {
			os.WriteFile(lastInput, b, 0o644) // a crash outside the calling goroutine is attributed to this input
		}
		_, err := vfC08exec(w, r)
		return err
	}
	for _, p := range vfh.ReplayFiles("C08", "requests") {
		var r vfC08Req
		if err := vfh.LoadCaseFile(p, &r); err != nil {
			t.Fatalf("regress %s: %v", p, err)
		}
		run.SetLast(&r)
		if err := evalOne(&r); err != nil {
			t.Fatalf("regression case %s: C08 violated: %v", filepath.Base(p), err)
		}
		run.Class("regress-replayed")
	}
	run.Require("server:0", "server:1", "server:2", "http:odd-options", "http:no-params", "http:null-params", "http:wrong-types", "http:api-path", "grpc:StreamTransactions", "grpc:StreamBlocks", "grpc:Get", "filter-flag-absent", "malformed-account")
	rapid.Check(t, func(rt *rapid.T) {
		var r *vfC08Req
		var class string
		if rapid.IntRange(0, 2).Draw(rt, "proto") == 0 {
			r, class = vfGenGrpc(rt, w)
		} else {
			r, class = vfGenHTTP(rt, w)
		}
		r.Server = rapid.IntRange(0, 2).Draw(rt, "server")
		run.SetLast(r)
		cls := []string{fmt.Sprintf("server:%d", r.Server)}
		parts := strings.Split(class, ":")
		cls = append(cls, parts[0]+":"+parts[1])
		if len(parts) > 2 {
			cls = append(cls, "method:"+parts[2])
		}
		if r.HasFlt && (r.Vote == nil || r.Failed == nil) {
			cls = append(cls, "filter-flag-absent")
		}
		for _, a := range append(append(append([]string{}, r.Include...), r.Exclude...), r.Required...) {
			if len(a) < 32 {
				cls = append(cls, "malformed-account")
				break
			}
		}
		nt := class != "http:valid" && !strings.HasPrefix(class, "http:other") && r.Kind != "GetVersion"
		run.Case(r, nt, r, cls...)
		if err := evalOne(r); err != nil {
			rt.Fatalf("C08 violated: %s: %v", class, err)
		}
	})
}

func TestVfReplayC08(t *testing.T) {
	var r vfC08Req
	if !vfh.LoadReplay(t, &r) {
		t.Skip("no VERIF_REPLAY")
	}
	w, err := vfC08setup()
	if err != nil {
		t.Fatalf("harness: %v", err)
	}
	if _, err := vfC08exec(w, &r); err != nil {
		t.Fatalf("C08 violated: %v", err)
	}
}

// FuzzVfC08Body: native coverage-guided fuzzing of the HTTP request (thorough tier).
func FuzzVfC08Body(f *testing.F) {
	w, err := vfC08setup()
	if err != nil {
		f.Fatalf("harness: %v", err)
	}
	for _, m := range vfC08Methods {
		f.Add(byte(2), byte(0), "/", `{"jsonrpc":"2.0","id":1,"method":"`+m+`","params":[`+fmt.Sprint(w.slots[0])+`]}`)
		f.Add(byte(1), byte(0), "/", `{"jsonrpc":"2.0","id":1,"method":"`+m+`","params":["`+w.sigs[0]+`",{"encoding":"base64","limit":3}]}`)
		f.Add(byte(2), byte(0), "/", `{"jsonrpc":"2.0","id":1,"method":"`+m+`"}`)
	}
	f.Add(byte(2), byte(1), "/api/v1/slot-to-cid/"+fmt.Sprint(w.slots[0]), "")
	f.Add(byte(2), byte(1), "/api/v1/sig-to-cid/"+w.sigs[0], "")
	f.Add(byte(0), byte(1), "/health", "")
	run := vfh.Begin("C08", "fuzz")
	methods := []string{"POST", "GET", "PUT", "DELETE"}
	f.Fuzz(func(t *testing.T, server byte, method byte, path string, body string) {
		if len(body) > 4096 || len(path) > 512 {
			return
		}
		r := &vfC08Req{Kind: "http", Server: int(server) % 3, Method: methods[int(method)%len(methods)], Path: path, Body: body}
		if !strings.HasPrefix(r.Path, "/") {
			r.Path = "/" + r.Path
		}
		if _, err := vfC08exec(w, r); err != nil {
			run.DumpReplay(r, err.Error())
			t.Fatalf("C08 violated: %v", err)
		}
	})
}
