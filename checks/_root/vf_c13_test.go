package main

// C13: truncated index or CAR files fail loudly instead of answering "not
// found" / empty / a different value. Metamorphic oracle against the complete file.

import (
	"bytes"
	"context"
	"encoding/binary"
	"fmt"
	"os"
	"path/filepath"
	"sort"
	"strings"
	"testing"

	"github.com/gagliardetto/solana-go"
	"github.com/ipfs/go-cid"
	"github.com/rpcpool/yellowstone-faithful/blocktimeindex"
	"github.com/rpcpool/yellowstone-faithful/bucketteer"
	"github.com/rpcpool/yellowstone-faithful/compactindexsized"
	deprecatedbucketteer "github.com/rpcpool/yellowstone-faithful/deprecated/bucketteer"
	"github.com/rpcpool/yellowstone-faithful/gsfa"
	"github.com/rpcpool/yellowstone-faithful/gsfa/linkedlog"
	"github.com/rpcpool/yellowstone-faithful/indexes"
	"github.com/rpcpool/yellowstone-faithful/zz_verif/cargen"
	"github.com/rpcpool/yellowstone-faithful/zz_verif/vfh"
	"pgregory.net/rapid"
)

type vfC13Case struct {
	Spec    *cargen.EpochSpec
	CutSeed uint64
}

// recording in-memory ReaderAt
type vfMemRA struct {
	b      []byte
	maxEnd int64 // highest byte index touched (exclusive)
}

func (m *vfMemRA) ReadAt(p []byte, off int64) (int, error) {
	if off+int64(len(p)) > m.maxEnd {
		m.maxEnd = off + int64(len(p))
	}
	return bytes.NewReader(m.b).ReadAt(p, off)
}
func (m *vfMemRA) Close() error { return nil }

// vfCuts: every offset for small files, else structure boundaries +-2 and a random sample.
func vfCuts(size int, boundaries []int, rng *vfSplit, nRandom int) []int {
	set := map[int]bool{}
	if size <= 4096 {
		for i := 0; i < size; i++ {
			set[i] = true
		}
	} else {
		for _, b := range append(boundaries, 0, size) {
			for d := -2; d <= 2; d++ {
				if c := b + d; c >= 0 && c < size {
					set[c] = true
				}
			}
		}
		for i := 0; i < nRandom; i++ {
			set[int(rng.next()%uint64(size))] = true
		}
	}
	out := make([]int, 0, len(set))
	for c := range set {
		out = append(out, c)
	}
	sort.Ints(out)
	return out
}

type vfC13Stats struct {
	m map[string]int
}

func (s *vfC13Stats) add(k string, n int) { s.m[k] += n }

// vfCompactBoundaries: header end, bucket table entries and bucket starts/ends of a compactindexsized file.
func vfCompactBoundaries(raw []byte) []int {
	var out []int
	if len(raw) < 12 {
		return out
	}
	hl := int(binary.LittleEndian.Uint32(raw[8:12])) + 12
	out = append(out, 8, 12, hl)
	if len(raw) < 24 {
		return out
	}
	nb := int(binary.LittleEndian.Uint32(raw[20:24]))
	for i := 0; i <= nb && i < 64; i++ {
		out = append(out, hl+i*16)
	}
	db, err := compactindexsized.Open(bytes.NewReader(raw))
	if err == nil {
		for i := uint(0); i < uint(db.Header.NumBuckets) && i < 64; i++ {
			if b, err := db.GetBucket(i); err == nil {
				out = append(out, int(b.FileOffset), int(b.FileOffset)+int(b.NumEntries)*int(b.Stride))
			}
		}
	}
	return out
}

func vfC13eval(c *vfC13Case, st *vfC13Stats) error {
	dir := vfh.TmpDir("c13")
	defer vfCloseLeaked(dir) // runs last: whatever is still open under dir then has no owner (failed epoch / reader opens)
	defer os.RemoveAll(dir)
	ep, err := cargen.Build(c.Spec)
	if err != nil {
		return fmt.Errorf("harness: %v", err)
	}
	if len(ep.Blocks) == 0 || len(ep.Txs) == 0 {
		return nil
	}
	env, err := vfBuildEpoch(filepath.Join(dir, "e"), ep, vfBuildOpts{Gsfa: true})
	if err != nil {
		return fmt.Errorf("building: %v", err)
	}
	defer env.Close()
	rng := &vfSplit{x: c.CutSeed}
	ctx := context.Background()

	// ---------------------------------------------------------------- compact indexes
	type lookup func(r *vfMemRA) (open error, get func(i int) (string, error), n int)
	compact := func(kind string, path string, mk lookup) error {
		raw, err := os.ReadFile(path)
		if err != nil {
			return err
		}
		full := &vfMemRA{b: raw}
		oerr, get, n := mk(full)
		if oerr != nil {
			return fmt.Errorf("%s: complete file does not open: %v", kind, oerr)
		}
		if n > 200 {
			n = 200
		}
		want := make([]string, n)
		reach := make([]int64, n)
		for i := 0; i < n; i++ {
			full.maxEnd = 0
			v, err := get(i)
			if err != nil {
				return fmt.Errorf("%s: complete file does not answer key %d: %v", kind, i, err)
			}
			want[i] = v
			reach[i] = full.maxEnd
		}
		for _, cut := range vfCuts(len(raw), vfCompactBoundaries(raw), rng, 200) {
			tr := &vfMemRA{b: raw[:cut]}
			var oerr error
			var tget func(int) (string, error)
			if perr, panicked := vfh.Catch(func() error { oerr, tget, _ = mk(tr); return nil }); panicked {
				oerr = perr // a crash is loud; crashes are judged by C12
				st.add(kind+"/open-panic", 1)
			}
			region := "entries"
			if cut < 12 {
				region = "magic"
			} else if len(raw) >= 12 && cut < int(binary.LittleEndian.Uint32(raw[8:12]))+12 {
				region = "header"
			}
			if oerr != nil {
				st.add(kind+"/open-error", 1)
				st.add("region:"+region, 1)
				continue
			}
			for i := 0; i < n; i++ {
				var v string
				var err error
				if perr, panicked := vfh.Catch(func() error { v, err = tget(i); return nil }); panicked {
					err = perr
					st.add(kind+"/lookup-panic", 1)
				}
				st.add("lookups", 1)
				if int64(cut) < reach[i] {
					st.add("nontrivial", 1)
					st.add("region:"+region, 1)
				}
				if err != nil {
					if compactindexsized.IsNotFound(err) {
						return fmt.Errorf("%s index cut to %d of %d bytes: key %d (answered by the complete file) is reported NOT FOUND: %v", kind, cut, len(raw), i, err)
					}
					st.add(kind+"/lookup-error", 1)
					continue
				}
				if v != want[i] {
					return fmt.Errorf("%s index cut to %d of %d bytes: key %d answers %s, the complete file answers %s", kind, cut, len(raw), i, v, want[i])
				}
				st.add(kind+"/same", 1)
			}
		}
		return nil
	}
	objs := ep.Objects
	if err := compact("cid-to-offset-and-size", env.Paths.CidToOffsetAndSize, func(r *vfMemRA) (error, func(int) (string, error), int) {
		x, err := indexes.OpenWithReader_CidToOffsetAndSize(r)
		if err != nil {
			return err, nil, 0
		}
		return nil, func(i int) (string, error) {
			v, err := x.Get(objs[i%len(objs)].Cid)
			if err != nil {
				return "", err
			}
			return fmt.Sprint(*v), nil
		}, len(objs)
	}); err != nil {
		return err
	}
	if err := compact("slot-to-cid", env.Paths.SlotToCid, func(r *vfMemRA) (error, func(int) (string, error), int) {
		x, err := indexes.OpenWithReader_SlotToCid(r)
		if err != nil {
			return err, nil, 0
		}
		return nil, func(i int) (string, error) {
			v, err := x.Get(ep.Blocks[i%len(ep.Blocks)].Slot)
			return v.String(), err
		}, len(ep.Blocks)
	}); err != nil {
		return err
	}
	if err := compact("sig-to-cid", env.Paths.SignatureToCid, func(r *vfMemRA) (error, func(int) (string, error), int) {
		x, err := indexes.OpenWithReader_SigToCid(r)
		if err != nil {
			return err, nil, 0
		}
		return nil, func(i int) (string, error) {
			v, err := x.Get(ep.Txs[i%len(ep.Txs)].Sig)
			return v.String(), err
		}, len(ep.Txs)
	}); err != nil {
		return err
	}
	// addresses with history
	var addrs []solana.PublicKey
	seen := map[solana.PublicKey]bool{}
	for _, t := range ep.Txs {
		for _, k := range t.Static {
			if !seen[k] {
				seen[k] = true
				addrs = append(addrs, k)
			}
		}
	}
	pkIdx := filepath.Join(env.GsfaDir, string(indexes.Kind_PubkeyToOffsetAndSize)+".index")
	if err := compact("pubkey-to-offset-and-size", pkIdx, func(r *vfMemRA) (error, func(int) (string, error), int) {
		x, err := indexes.OpenWithReader_PubkeyToOffsetAndSize(r)
		if err != nil {
			return err, nil, 0
		}
		return nil, func(i int) (string, error) {
			v, err := x.Get(addrs[i%len(addrs)])
			if err != nil {
				return "", err
			}
			return fmt.Sprint(*v), nil
		}, len(addrs)
	}); err != nil {
		return err
	}

	// ---------------------------------------------------------------- sig-exists (current + legacy)
	sigs := make([][64]byte, 0, len(ep.Txs))
	for i, t := range ep.Txs {
		if i < 200 {
			sigs = append(sigs, t.Sig)
		}
	}
	sigExists := func(kind string, raw []byte, open func(r *vfMemRA) (func([64]byte) (bool, error), error)) error {
		full := &vfMemRA{b: raw}
		has, err := open(full)
		if err != nil {
			return fmt.Errorf("%s: complete file does not open: %v", kind, err)
		}
		reach := make([]int64, len(sigs))
		var bounds []int
		for i, s := range sigs {
			full.maxEnd = 0
			ok, err := has(s)
			if err != nil || !ok {
				return fmt.Errorf("%s: complete file does not report signature %d (%v, %v)", kind, i, ok, err)
			}
			reach[i] = full.maxEnd
			bounds = append(bounds, int(full.maxEnd), int(full.maxEnd)-8, int(full.maxEnd)-12)
		}
		if len(raw) >= 4 {
			hs := int(binary.LittleEndian.Uint32(raw[:4]))
			bounds = append(bounds, 4, 12, 20, hs+4, hs/2)
		}
		for _, cut := range vfCuts(len(raw), bounds, rng, 150) {
			tr := &vfMemRA{b: raw[:cut]}
			var thas func([64]byte) (bool, error)
			var err error
			if perr, panicked := vfh.Catch(func() error { thas, err = open(tr); return nil }); panicked {
				err = perr
				st.add(kind+"/open-panic", 1)
			}
			if err != nil {
				st.add(kind+"/open-error", 1)
				continue
			}
			for i, s := range sigs {
				var ok bool
				var err error
				if perr, panicked := vfh.Catch(func() error { ok, err = thas(s); return nil }); panicked {
					err = perr
					st.add(kind+"/lookup-panic", 1)
				}
				st.add("lookups", 1)
				if int64(cut) < reach[i] {
					st.add("nontrivial", 1)
				}
				if err != nil {
					st.add(kind+"/lookup-error", 1)
					continue
				}
				if !ok {
					return fmt.Errorf("%s file cut to %d of %d bytes: signature %d (present in the complete file) is reported ABSENT without an error", kind, cut, len(raw), i)
				}
				st.add(kind+"/same", 1)
			}
		}
		return nil
	}
	rawSE, err := os.ReadFile(env.Paths.SignatureExists)
	if err != nil {
		return err
	}
	if err := sigExists("sig-exists", rawSE, func(r *vfMemRA) (func([64]byte) (bool, error), error) {
		x, err := bucketteer.NewReader(r)
		if err != nil {
			return nil, err
		}
		return x.Has, nil
	}); err != nil {
		return err
	}
	{
		lp := filepath.Join(dir, "legacy-sig-exists")
		lw, err := deprecatedbucketteer.NewWriter(lp)
		if err != nil {
			return err
		}
		for _, s := range sigs {
			lw.Put(s)
		}
		if _, err := lw.Seal(map[string]string{"epoch": "x"}); err != nil {
			return err
		}
		lw.Close()
		rawL, err := os.ReadFile(lp)
		if err != nil {
			return err
		}
		if err := sigExists("sig-exists-legacy", rawL, func(r *vfMemRA) (func([64]byte) (bool, error), error) {
			x, err := deprecatedbucketteer.NewReader(r)
			if err != nil {
				return nil, err
			}
			return x.Has, nil
		}); err != nil {
			return err
		}
	}

	// ---------------------------------------------------------------- slot-to-blocktime
	rawBT, err := os.ReadFile(env.Paths.SlotToBlocktime)
	if err != nil {
		return err
	}
	var btBounds []int
	for _, b := range ep.Blocks {
		// header: magic "blocktimeindex" (14 bytes) + start, end, epoch, capacity (8 bytes each), then 4 bytes per slot
		off := 14 + 8*4 + int(b.Slot-ep.FirstSlot())*4
		btBounds = append(btBounds, off, off+4)
	}
	for _, cut := range vfCuts(len(rawBT), btBounds, rng, 60) {
		var idx *blocktimeindex.Index
		var err error
		if perr, panicked := vfh.Catch(func() error { idx, err = blocktimeindex.FromBytes(rawBT[:cut]); return nil }); panicked {
			err = perr
			st.add("slot-to-blocktime/open-panic", 1)
		}
		if err != nil {
			st.add("slot-to-blocktime/open-error", 1)
			continue
		}
		for _, b := range ep.Blocks {
			st.add("lookups", 1)
			st.add("nontrivial", 1)
			t, err := idx.Get(b.Slot)
			if err != nil {
				st.add("slot-to-blocktime/lookup-error", 1)
				continue
			}
			if t != b.Blocktime {
				return fmt.Errorf("slot-to-blocktime cut to %d of %d bytes: slot %d answers %d, the complete file answers %d", cut, len(rawBT), b.Slot, t, b.Blocktime)
			}
			st.add("slot-to-blocktime/same", 1)
		}
	}
	// the server reads the file through ReadAllFromReaderAt
	for _, cut := range []int{0, 1, len(rawBT) / 2, len(rawBT) - 1} {
		_, err := ReadAllFromReaderAt(&vfMemRA{b: rawBT[:cut]}, uint64(blocktimeindex.DefaultIndexByteSize))
		if err == nil {
			return fmt.Errorf("ReadAllFromReaderAt accepted a slot-to-blocktime file cut to %d of %d bytes", cut, len(rawBT))
		}
	}

	// ---------------------------------------------------------------- gsfa directory (linked log, manifest, pubkey index)
	fullReader, err := gsfa.NewGsfaReader(env.GsfaDir)
	if err != nil {
		return fmt.Errorf("gsfa: complete index does not open: %v", err)
	}
	wantHist := map[solana.PublicKey][]linkedlog.OffsetAndSizeAndSlot{}
	for _, a := range addrs {
		h, err := fullReader.Get(ctx, a, 1<<30)
		if err != nil {
			fullReader.Close()
			return fmt.Errorf("gsfa: complete index does not answer %s: %v", a, err)
		}
		wantHist[a] = h
	}
	fm := fullReader.Meta()
	wantMeta, wantVersion := fm.Bytes(), fullReader.Version()
	fullReader.Close()
	for _, fname := range []string{"linked-log", "manifest", string(indexes.Kind_PubkeyToOffsetAndSize) + ".index"} {
		raw, err := os.ReadFile(filepath.Join(env.GsfaDir, fname))
		if err != nil {
			return err
		}
		cuts := vfCuts(len(raw), nil, rng, 60)
		if len(cuts) > 120 {
			// sample evenly
			var s []int
			for i := 0; i < 120; i++ {
				s = append(s, cuts[i*len(cuts)/120])
			}
			cuts = s
		}
		for _, cut := range cuts {
			tdir := filepath.Join(dir, "gsfa-cut")
			os.RemoveAll(tdir)
			if err := vfCopyDir(env.GsfaDir, tdir); err != nil {
				return err
			}
			if err := os.WriteFile(filepath.Join(tdir, fname), raw[:cut], 0o644); err != nil {
				return err
			}
			var r *gsfa.GsfaReader
			var err error
			if perr, panicked := vfh.Catch(func() error { r, err = gsfa.NewGsfaReader(tdir); return nil }); panicked {
				err = perr
				st.add("gsfa-"+fname+"/open-panic", 1)
			}
			if err != nil {
				st.add("gsfa-"+fname+"/open-error", 1)
				vfCloseLeaked(tdir)
				continue
			}
			// opening succeeded: what the reader reports about the index (version, epoch / root / network metadata)
			// must be what the complete directory reports
			rm := r.Meta()
			if gm, gv := rm.Bytes(), r.Version(); !bytes.Equal(gm, wantMeta) || gv != wantVersion {
				r.Close()
				return fmt.Errorf("gsfa %s cut to %d of %d bytes: the directory opens and reports version %d / %d bytes of metadata, the complete one version %d / %d bytes", fname, cut, len(raw), gv, len(gm), wantVersion, len(wantMeta))
			}
			st.add("gsfa-"+fname+"/open-same-metadata", 1)
			for _, a := range addrs {
				st.add("lookups", 1)
				st.add("nontrivial", 1)
				var h []linkedlog.OffsetAndSizeAndSlot
				var err error
				if perr, panicked := vfh.Catch(func() error { h, err = r.Get(ctx, a, 1<<30); return nil }); panicked {
					err = perr
					st.add("gsfa-"+fname+"/lookup-panic", 1)
				}
				if err != nil {
					if compactindexsized.IsNotFound(err) {
						r.Close()
						return fmt.Errorf("gsfa %s cut to %d of %d bytes: address %s (with history in the complete index) is reported NOT FOUND: %v", fname, cut, len(raw), a, err)
					}
					st.add("gsfa-"+fname+"/lookup-error", 1)
					continue
				}
				if fmt.Sprint(h) != fmt.Sprint(wantHist[a]) {
					r.Close()
					return fmt.Errorf("gsfa %s cut to %d of %d bytes: address %s returns %d entries, the complete index %d (or different entries)", fname, cut, len(raw), a, len(h), len(wantHist[a]))
				}
				st.add("gsfa-"+fname+"/same", 1)
			}
			r.Close()
		}
	}

	// ---------------------------------------------------------------- epoch level: truncated CAR / index under a loaded epoch
	h0epoch, err := env.Load(vfNewCache())
	if err != nil {
		return fmt.Errorf("complete epoch does not load: %v", err)
	}
	multi0 := NewMultiEpoch(&Options{EpochSearchConcurrency: 1})
	multi0.AddEpoch(h0epoch.Epoch(), h0epoch)
	h0 := newMultiEpochHandler(multi0, nil)
	fullBlock := map[uint64]string{}
	fullTx := map[string]string{}
	for i, b := range ep.Blocks {
		if i < 8 {
			fullBlock[b.Slot] = string(vfCall(h0, "getBlock", b.Slot, map[string]any{"encoding": "base64"}).Body)
		}
	}
	for i, t := range ep.Txs {
		if i < 8 {
			fullTx[t.Sig.String()] = string(vfCall(h0, "getTransaction", t.Sig.String(), map[string]any{"encoding": "base64"}).Body)
		}
	}
	multi0.Close()
	// a second, complete epoch served next to the damaged one: with two epochs loaded getTransaction first asks
	// every epoch's sig-exists index, so an error of the damaged epoch meets a "not present" of the other one
	var compEnv *vfEpochEnv
	{
		cs := *vfC08specs()[0]
		cs.Epoch = c.Spec.Epoch + 1
		cs.Seed = c.Spec.Seed ^ 0x5eed
		cs.TxIndex = true
		if cep, err := cargen.Build(&cs); err == nil {
			compEnv, _ = vfBuildEpoch(filepath.Join(dir, "companion"), cep, vfBuildOpts{})
		}
		if compEnv != nil {
			defer compEnv.Close()
		}
	}
	epochLevel := func(role, path string, cuts []int) error {
		raw, err := os.ReadFile(path)
		if err != nil {
			return err
		}
		for _, cut := range cuts {
			if cut >= len(raw) {
				continue
			}
			tp := filepath.Join(dir, "cut-"+role)
			if err := os.WriteFile(tp, raw[:cut], 0o644); err != nil {
				return err
			}
			cfg := filepath.Join(dir, "cut-"+role+".yaml")
			if err := os.WriteFile(cfg, []byte(env.configYAML(map[string]string{role: tp})), 0o644); err != nil {
				return err
			}
			var e *Epoch
			lerr, panicked := vfh.Catch(func() error {
				var er error
				e, er = vfLoadEpochFrom(cfg, vfNewCache())
				return er
			})
			if lerr != nil {
				if panicked {
					st.add("epoch-"+role+"/load-panic", 1)
				}
				st.add("epoch-"+role+"/load-error", 1)
				continue
			}
			m := NewMultiEpoch(&Options{EpochSearchConcurrency: 1})
			m.AddEpoch(e.Epoch(), e)
			if compEnv != nil && (role == "sig_exists" || role == "sig_to_cid") && cut%2 == 0 {
				if ce, err := compEnv.Load(vfNewCache()); err == nil {
					m.AddEpoch(ce.Epoch(), ce)
					st.add("epoch-"+role+"/two-epochs-loaded", 1)
				}
			}
			hh := newMultiEpochHandler(m, nil)
			judge := func(what string, body, want string) error {
				st.add("lookups", 1)
				st.add("nontrivial", 1)
				if body == want {
					st.add("epoch-"+role+"/same", 1)
					return nil
				}
				if strings.Contains(body, `"error"`) {
					if strings.Contains(body, "skipped, or missing") || strings.Contains(body, "Transaction not found") || strings.Contains(body, fmt.Sprint(CodeNotFound)) {
						return fmt.Errorf("%s file cut to %d of %d bytes: %s answers NOT FOUND (%s) although the complete archive answers it", role, cut, len(raw), what, vfh.Short(body, 160))
					}
					st.add("epoch-"+role+"/lookup-error", 1)
					return nil
				}
				return fmt.Errorf("%s file cut to %d of %d bytes: %s returns a different answer than the complete archive: %s", role, cut, len(raw), what, vfh.Short(body, 160))
			}
			var verr error
			_, panicked = vfh.Catch(func() error {
				for slot, want := range fullBlock {
					if err := judge(fmt.Sprintf("getBlock(%d)", slot), string(vfCall(hh, "getBlock", slot, map[string]any{"encoding": "base64"}).Body), want); err != nil {
						verr = err
						return nil
					}
				}
				for sig, want := range fullTx {
					if err := judge("getTransaction("+sig+")", string(vfCall(hh, "getTransaction", sig, map[string]any{"encoding": "base64"}).Body), want); err != nil {
						verr = err
						return nil
					}
				}
				for i := range ep.Objects {
					if i%7 != 0 {
						continue
					}
					o := &ep.Objects[i]
					data, err := e.GetNodeByCid(ctx, o.Cid)
					st.add("lookups", 1)
					if err == nil && !bytes.Equal(data, o.Data) {
						verr = fmt.Errorf("%s file cut to %d of %d bytes: GetNodeByCid(%s) returns different bytes", role, cut, len(raw), o.Cid)
						return nil
					}
					if err != nil && compactindexsized.IsNotFound(err) {
						verr = fmt.Errorf("%s file cut to %d of %d bytes: GetNodeByCid(%s) is reported NOT FOUND: %v", role, cut, len(raw), o.Cid, err)
						return nil
					}
				}
				return nil
			})
			if panicked {
				// crashes on damaged files are judged by C12; a crash is not a silent wrong answer
				st.add("epoch-"+role+"/query-panic", 1)
			}
			m.Close()
			if verr != nil {
				return verr
			}
		}
		return nil
	}
	pick := func(size int, n int, bounds []int) []int {
		all := vfCuts(size, bounds, rng, n)
		if len(all) <= n {
			return all
		}
		var out []int
		for i := 0; i < n; i++ {
			out = append(out, all[int(rng.next()%uint64(len(all)))])
		}
		return out
	}
	var carBounds []int
	for i := range ep.Objects {
		if i%5 == 0 {
			carBounds = append(carBounds, int(ep.Objects[i].Offset), int(ep.Objects[i].Offset+ep.Objects[i].SectionLen))
		}
	}
	if err := epochLevel("car", env.CarPath, pick(len(ep.Car), 10, carBounds)); err != nil {
		return err
	}
	for role, path := range map[string]string{"cid_to_offset_and_size": env.Paths.CidToOffsetAndSize, "slot_to_cid": env.Paths.SlotToCid, "sig_to_cid": env.Paths.SignatureToCid, "sig_exists": env.Paths.SignatureExists, "slot_to_blocktime": env.Paths.SlotToBlocktime} {
		fi, err := os.Stat(path)
		if err != nil {
			return err
		}
		n := 4
		if role == "sig_exists" {
			n = 10 // most of that file is its prefix table; the cuts of interest lie behind it
		}
		if err := epochLevel(role, path, pick(int(fi.Size()), n, nil)); err != nil {
			return err
		}
	}
	return nil
}

var _ = cid.Undef

func TestVfC13(t *testing.T) {
	run := vfh.Begin("C13", "truncation")
	defer run.End(t)
	run.Require("kind:cid-to-offset-and-size", "kind:slot-to-cid", "kind:sig-to-cid", "kind:pubkey-to-offset-and-size", "kind:sig-exists", "kind:sig-exists-legacy", "kind:slot-to-blocktime", "kind:gsfa-linked-log", "kind:gsfa-manifest", "kind:epoch-car", "region:header", "region:entries")
	for _, p := range vfh.ReplayFiles("C13", "truncation") {
		var c vfC13Case
		if err := vfh.LoadCaseFile(p, &c); err != nil {
			t.Fatalf("regress %s: %v", p, err)
		}
		run.SetLast(&c)
		if err, _ := vfh.Catch(func() error { return vfC13eval(&c, &vfC13Stats{m: map[string]int{}}) }); err != nil {
			t.Fatalf("regression case %s: C13 violated: %v", filepath.Base(p), err)
		}
		run.Class("regress-replayed")
	}
	opts := cargen.DefaultOpts()
	opts.MaxBlocks = 6
	opts.BigFrames = false
	rapid.Check(t, func(rt *rapid.T) {
		c := &vfC13Case{Spec: cargen.Gen(rt, opts), CutSeed: rapid.Uint64().Draw(rt, "cutSeed")}
		if rapid.IntRange(0, 2).Draw(rt, "lastSlot") == 0 && len(c.Spec.Blocks) > 0 {
			// the last block on the last slot of the epoch: its values are the final bytes of the per-slot files
			span := 0
			for _, b := range c.Spec.Blocks[1:] {
				span += max(b.Gap, 1)
			}
			if c.Spec.Epoch > 0 || len(c.Spec.Blocks) > 2 {
				c.Spec.Blocks[0].Gap = cargen.SlotsPerEpoch - 1 - span
			}
		}
		run.SetLast(c)
		st := &vfC13Stats{m: map[string]int{}}
		err, panicked := vfh.Catch(func() error { return vfC13eval(c, st) })
		kinds := map[string]bool{}
		for k, v := range st.m {
			if i := strings.Index(k, "/"); i > 0 {
				kinds["kind:"+k[:i]] = true
			}
			if strings.HasPrefix(k, "region:") {
				kinds[k] = true
			}
			run.ClassN("n:"+k, v)
		}
		var cls []string
		for k := range kinds {
			cls = append(cls, k)
		}
		run.Evals(st.m["lookups"])
		run.Case(c, st.m["nontrivial"] > 0, map[string]any{"blocks": len(c.Spec.Blocks), "lookups": st.m["lookups"], "nontrivial": st.m["nontrivial"]}, cls...)
		if err != nil {
			if panicked {
				rt.Fatalf("C13 violated: panic in harness path: %v", err)
			}
			rt.Fatalf("C13 violated: %v", err)
		}
	})
}

func TestVfReplayC13(t *testing.T) {
	var c vfC13Case
	if !vfh.LoadReplay(t, &c) {
		t.Skip("no VERIF_REPLAY")
	}
	if err, _ := vfh.Catch(func() error { return vfC13eval(&c, &vfC13Stats{m: map[string]int{}}) }); err != nil {
		t.Fatalf("C13 violated: %v", err)
	}
}
