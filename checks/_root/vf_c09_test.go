package main

// C09: queries and epoch reloads never deadlock and see a consistent epoch set.
// Generated concurrent programs (stress) + a single-threaded run against a build
// whose MultiEpoch.mu is an instrumented RW mutex (lock-order monitor).

import (
	"bytes"
	"context"
	"encoding/json"
	"fmt"
	"os"
	"os/exec"
	"path/filepath"
	"runtime"
	"sort"
	"strings"
	"sync"
	"sync/atomic"
	"testing"
	"time"

	old_faithful_grpc "github.com/rpcpool/yellowstone-faithful/old-faithful-proto/old-faithful-grpc"
	"github.com/rpcpool/yellowstone-faithful/zz_verif/cargen"
	"github.com/rpcpool/yellowstone-faithful/zz_verif/vfh"
	"github.com/valyala/fasthttp"
	"pgregory.net/rapid"
)

type vfC09Op struct {
	Kind string // reader: getSlot getFirstAvailableBlock getBlock getBlockTime getTransaction getSignaturesForAddress getVersion mostRecentEpoch grpcGetBlock
	//             writer: add remove replace replaceOrAdd removeByConfig
	Arg int
}

type vfC09Case struct {
	Readers [][]vfC09Op
	Writers [][]vfC09Op
	Procs   int
	ClassB  bool // writers load fresh epochs and close the old ones (ReplaceOrAddEpoch / RemoveEpochByConfigFilepath)
	// OneStable: 0 = both stable epochs loaded (plus one volatile at the start); 1 / 2 = only the first / second stable
	// epoch is loaded at the start, so that the epoch count moves between 1 and more while the writers run
	OneStable int
	Repeat    int // every reader operation is issued this many times in a row (0 = once)
}

type vfC09World struct {
	dir      string
	stable   []*cargen.Epoch // epochs 0 and 3
	volatile []*cargen.Epoch // epochs 5, 6, 7
	envs     map[uint64]*vfEpochEnv
	objs     map[uint64]*Epoch // loaded once, shared by class A writers (never closed)
	baseline map[string]string
}

var (
	vfC09once  sync.Once
	vfC09world *vfC09World
	vfC09err   error
)

func vfC09setup() (*vfC09World, error) {
	vfC09once.Do(func() {
		w := &vfC09World{dir: vfh.TmpDir("c09"), envs: map[uint64]*vfEpochEnv{}, objs: map[uint64]*Epoch{}}
		specs := vfC08specs()
		nums := []uint64{0, 3, 5, 6, 7}
		cache := vfNewCache()
		for i, n := range nums {
			s := *specs[i%len(specs)]
			s.Epoch = n
			s.Seed = 100 + n
			s.TxIndex = true
			ep, err := cargen.Build(&s)
			if err != nil {
				vfC09err = err
				return
			}
			env, err := vfBuildEpoch(filepath.Join(w.dir, fmt.Sprintf("e%d", n)), ep, vfBuildOpts{Gsfa: true})
			if err != nil {
				vfC09err = err
				return
			}
			obj, err := env.Load(cache)
			if err != nil {
				vfC09err = err
				return
			}
			w.envs[n] = env
			w.objs[n] = obj
			if n <= 3 {
				w.stable = append(w.stable, ep)
			} else {
				w.volatile = append(w.volatile, ep)
			}
		}
		// answers of the idle server for queries addressed to stable epochs
		m := NewMultiEpoch(&Options{EpochSearchConcurrency: 2})
		for _, ep := range w.stable {
			m.AddEpoch(ep.Num, w.objs[ep.Num])
		}
		h := newMultiEpochHandler(m, nil)
		w.baseline = map[string]string{}
		for _, ep := range w.stable {
			for _, b := range ep.Blocks {
				w.baseline[fmt.Sprintf("getBlock/%d", b.Slot)] = vfStripID(vfCall(h, "getBlock", b.Slot, map[string]any{"encoding": "base64"}).Body)
				w.baseline[fmt.Sprintf("getBlockTime/%d", b.Slot)] = vfStripID(vfCall(h, "getBlockTime", b.Slot).Body)
			}
			for _, t := range ep.Txs {
				w.baseline["getTransaction/"+t.Sig.String()] = vfStripID(vfCall(h, "getTransaction", t.Sig.String(), map[string]any{"encoding": "base64"}).Body)
			}
		}
		vfC09world = w
	})
	return vfC09world, vfC09err
}

func vfStripID(b []byte) string { return string(b) }

func (w *vfC09World) allowedEpochs() map[uint64]bool {
	m := map[uint64]bool{}
	for _, e := range w.stable {
		m[e.Num] = true
	}
	for _, e := range w.volatile {
		m[e.Num] = true
	}
	return m
}

// vfC09checkList: duplicate-free, strictly descending, superset of stable, subset of stable+volatile.
func (w *vfC09World) checkList(nums []uint64, what string) error {
	allowed := w.allowedEpochs()
	seen := map[uint64]bool{}
	for i, n := range nums {
		if seen[n] {
			return fmt.Errorf("%s lists epoch %d twice: %v", what, n, nums)
		}
		seen[n] = true
		if !allowed[n] {
			return fmt.Errorf("%s lists epoch %d which was never loaded: %v", what, n, nums)
		}
		if i > 0 && nums[i-1] <= n {
			return fmt.Errorf("%s is not sorted newest first: %v", what, nums)
		}
	}
	for _, e := range w.stable {
		if !seen[e.Num] {
			return fmt.Errorf("%s misses epoch %d which stays loaded the whole time: %v", what, e.Num, nums)
		}
	}
	return nil
}

// vfC09reader performs one reader op and judges its result.
func (w *vfC09World) reader(m *MultiEpoch, h func(*fasthttp.RequestCtx), op vfC09Op, classB bool) error {
	st := w.stable[op.Arg%len(w.stable)]
	switch op.Kind {
	case "getSlot", "getFirstAvailableBlock":
		if classB {
			return nil // in class B the newest/oldest epoch may be closed underneath the query; not addressed to a stable epoch
		}
		resp := vfCall(h, op.Kind)
		if resp.JSON == nil || resp.JSON["error"] != nil {
			return fmt.Errorf("%s failed although epochs are loaded the whole time: %s", op.Kind, vfh.Short(string(resp.Body), 160))
		}
		v, _ := resp.JSON["result"].(float64)
		ok := false
		for _, ep := range append(append([]*cargen.Epoch{}, w.stable...), w.volatile...) {
			if uint64(v) == ep.Blocks[0].Slot || uint64(v) == ep.Blocks[len(ep.Blocks)-1].Slot {
				ok = true
			}
		}
		if !ok {
			return fmt.Errorf("%s = %v is not the first/last slot of any loaded epoch", op.Kind, resp.JSON["result"])
		}
	case "getBlock":
		b := st.Blocks[op.Arg%len(st.Blocks)]
		got := string(vfCall(h, "getBlock", b.Slot, map[string]any{"encoding": "base64"}).Body)
		if got != w.baseline[fmt.Sprintf("getBlock/%d", b.Slot)] {
			return fmt.Errorf("getBlock(%d) of a stable epoch differs from the idle server's answer: %s", b.Slot, vfh.Short(got, 200))
		}
	case "getBlockTime":
		b := st.Blocks[op.Arg%len(st.Blocks)]
		got := string(vfCall(h, "getBlockTime", b.Slot).Body)
		if got != w.baseline[fmt.Sprintf("getBlockTime/%d", b.Slot)] {
			return fmt.Errorf("getBlockTime(%d) of a stable epoch differs from the idle server's answer: %s", b.Slot, vfh.Short(got, 200))
		}
	case "getTransaction":
		if classB {
			return nil // the signature search consults every loaded epoch, including ones being closed
		}
		t := st.Txs[op.Arg%len(st.Txs)]
		got := string(vfCall(h, "getTransaction", t.Sig.String(), map[string]any{"encoding": "base64"}).Body)
		if got != w.baseline["getTransaction/"+t.Sig.String()] {
			return fmt.Errorf("getTransaction(%s) of a stable epoch differs from the idle server's answer: %s", t.Sig, vfh.Short(got, 200))
		}
	case "getSignaturesForAddress":
		if classB {
			return nil
		}
		// The address history spans every loaded epoch, volatile ones included: when one of them is
		// removed while the query runs an error is a legal outcome. Only completion is required here.
		resp := vfCall(h, "getSignaturesForAddress", cargen.Acct(op.Arg%4).String(), map[string]any{"limit": 5})
		if resp.JSON == nil {
			return fmt.Errorf("getSignaturesForAddress returned no JSON: %s", vfh.Short(string(resp.Body), 160))
		}
	case "getVersion":
		resp := vfCall(h, "getVersion")
		res, _ := resp.JSON["result"].(map[string]any)
		f, _ := res["faithful"].(map[string]any)
		arr, _ := f["epochs"].([]any)
		var nums []uint64
		for _, x := range arr {
			v, _ := x.(float64)
			nums = append(nums, uint64(v))
		}
		return w.checkList(nums, "getVersion")
	case "mostRecentEpoch":
		if err := w.checkList(m.GetEpochNumbers(), "GetEpochNumbers"); err != nil {
			return err
		}
		n, err := m.GetMostRecentAvailableEpochNumber()
		if err != nil || !w.allowedEpochs()[n] {
			return fmt.Errorf("GetMostRecentAvailableEpochNumber = %d, %v", n, err)
		}
		if !classB {
			if e, err := m.GetMostRecentAvailableEpoch(); err != nil || e == nil {
				return fmt.Errorf("GetMostRecentAvailableEpoch failed: %v", err)
			}
			if e, err := m.GetOldestAvailableEpoch(); err != nil || e == nil || e.Epoch() != w.stable[0].Num {
				return fmt.Errorf("GetOldestAvailableEpoch is not the oldest stable epoch: %v", err)
			}
		}
	case "grpcGetBlock":
		b := st.Blocks[op.Arg%len(st.Blocks)]
		r, err := m.GetBlock(context.Background(), &old_faithful_grpc.BlockRequest{Slot: b.Slot})
		if err != nil || r.Slot != b.Slot || len(r.Transactions) != len(b.Txs) {
			return fmt.Errorf("gRPC GetBlock(%d) of a stable epoch failed or differs: %v", b.Slot, err)
		}
	}
	return nil
}

func (w *vfC09World) writer(m *MultiEpoch, op vfC09Op, classB bool, tick func()) error {
	v := w.volatile[op.Arg%len(w.volatile)]
	switch op.Kind {
	case "add":
		m.AddEpoch(v.Num, w.objs[v.Num]) // "already exists" is a legal outcome
	case "remove":
		m.RemoveEpoch(v.Num)
	case "toggle":
		// an epoch appearing and disappearing many times (start-up loading, --watch create/remove)
		for k := 0; k < 200; k++ {
			m.AddEpoch(v.Num, w.objs[v.Num])
			runtime.Gosched()
			m.RemoveEpoch(v.Num)
			if tick != nil {
				tick() // each add/remove is an operation of its own for the stall detector
			}
		}
	case "replace":
		m.ReplaceEpoch(v.Num, w.objs[v.Num])
	case "replaceOrAdd":
		if classB {
			e, err := w.envs[v.Num].Load(vfNewCache())
			if err != nil {
				return fmt.Errorf("harness: reloading epoch %d: %v", v.Num, err)
			}
			m.ReplaceOrAddEpoch(v.Num, e)
		}
	case "removeByConfig":
		if classB {
			m.RemoveEpochByConfigFilepath(w.envs[v.Num].ConfigPath)
		}
	}
	return nil
}

type vfC09Stats struct {
	overlap bool
	ops     int
}

func vfC09eval(w0 *vfC09World, c *vfC09Case, st *vfC09Stats) error {
	if c.Procs > 0 {
		defer runtime.GOMAXPROCS(runtime.GOMAXPROCS(c.Procs))
	}
	w := w0
	if c.OneStable >= 1 && c.OneStable <= len(w0.stable) {
		view := *w0
		view.stable = w0.stable[c.OneStable-1 : c.OneStable]
		w = &view
	}
	m := NewMultiEpoch(&Options{EpochSearchConcurrency: 2})
	for _, ep := range w.stable {
		m.AddEpoch(ep.Num, w.objs[ep.Num])
	}
	if !c.ClassB && c.OneStable == 0 {
		m.AddEpoch(w.volatile[0].Num, w.objs[w.volatile[0].Num])
	}
	h := newMultiEpochHandler(m, nil)
	var progress, writersActive, overlapped atomic.Int64
	var wg sync.WaitGroup
	errCh := make(chan error, len(c.Readers)+len(c.Writers))
	start := make(chan struct{})
	for _, ops := range c.Readers {
		wg.Add(1)
		go func(ops []vfC09Op) {
			defer wg.Done()
			defer func() {
				if p := recover(); p != nil {
					errCh <- fmt.Errorf("reader panicked: %v", p)
				}
			}()
			<-start
			for _, op := range ops {
				wa := writersActive.Load()
				for k := 1; k < c.Repeat; k++ {
					if err := w.reader(m, h, op, c.ClassB); err != nil {
						errCh <- err
						return
					}
					progress.Add(1)
				}
				if err := w.reader(m, h, op, c.ClassB); err != nil {
					errCh <- err
					return
				}
				if wa > 0 && (op.Kind == "getVersion" || op.Kind == "mostRecentEpoch" || op.Kind == "getSlot") {
					overlapped.Add(1)
				}
				progress.Add(1)
			}
		}(ops)
	}
	for _, ops := range c.Writers {
		wg.Add(1)
		go func(ops []vfC09Op) {
			defer wg.Done()
			defer func() {
				if p := recover(); p != nil {
					errCh <- fmt.Errorf("writer panicked: %v", p)
				}
			}()
			<-start
			writersActive.Add(1)
			defer writersActive.Add(-1)
			for _, op := range ops {
				if err := w.writer(m, op, c.ClassB, func() { progress.Add(1) }); err != nil {
					errCh <- err
					return
				}
				progress.Add(1)
			}
		}(ops)
	}
	close(start)
	done := make(chan struct{})
	go func() { wg.Wait(); close(done) }()
	last := int64(-1)
	stalled := 0
	for {
		select {
		case <-done:
			st.overlap = overlapped.Load() > 0
			st.ops = int(progress.Load())
			select {
			case err := <-errCh:
				return err
			default:
			}
			return nil
		case err := <-errCh:
			return err
		case <-time.After(1 * time.Second):
			p := progress.Load()
			if p != last {
				last, stalled = p, 0
				continue
			}
			stalled++
			if stalled < 12 {
				continue
			}
			// no operation completed for 12 s while operations are pending
			buf := make([]byte, 1<<20)
			n := runtime.Stack(buf, true)
			dump := string(buf[:n])
			waiters := strings.Count(dump, "sync.(*RWMutex).RLock") + strings.Count(dump, "sync.(*RWMutex).Lock")
			if waiters > 0 {
				// keep the first blocked stacks for the log
				var keep []string
				for _, g := range strings.Split(dump, "\n\n") {
					if strings.Contains(g, "sync.(*RWMutex)") && len(keep) < 3 {
						keep = append(keep, g)
					}
				}
				// ... and the other goroutines of this program (whoever holds the lock is among them)
				others := 0
				for _, g := range strings.Split(dump, "\n\n") {
					if !strings.Contains(g, "sync.(*RWMutex)") && (strings.Contains(g, "vfC09World).reader") || strings.Contains(g, "vfC09World).writer")) && others < 4 {
						if len(g) > 1500 {
							g = g[:1500]
						}
						keep = append(keep, "[not waiting for the epoch-set lock] "+g)
						others++
					}
				}
				return fmt.Errorf("deadlock: no operation completed for 12s, %d goroutines are parked in sync.RWMutex RLock/Lock of the epoch set:\n%s", waiters, strings.Join(keep, "\n\n"))
			}
			return fmt.Errorf("VF-INCONCLUSIVE stall without lock waiters")
		}
	}
}

var vfC09ReaderKinds = []string{"getSlot", "getSlot", "getFirstAvailableBlock", "getBlock", "getBlockTime", "getTransaction", "getSignaturesForAddress", "getVersion", "mostRecentEpoch", "mostRecentEpoch", "grpcGetBlock"}

func vfC09gen(rt *rapid.T, maxOps int) *vfC09Case {
	c := &vfC09Case{}
	c.ClassB = rapid.IntRange(0, 4).Draw(rt, "classB") == 0
	c.Procs = rapid.SampledFrom([]int{2, 4, 16}).Draw(rt, "procs")
	nr := rapid.IntRange(2, 12).Draw(rt, "readers")
	nw := rapid.IntRange(1, 3).Draw(rt, "writers")
	opGen := func(kinds []string) *rapid.Generator[vfC09Op] {
		return rapid.Custom(func(t *rapid.T) vfC09Op {
			return vfC09Op{Kind: rapid.SampledFrom(kinds).Draw(t, "op"), Arg: rapid.IntRange(0, 50).Draw(t, "arg")}
		})
	}
	wk := []string{"add", "remove", "replace", "add", "remove"}
	if c.ClassB {
		wk = []string{"replaceOrAdd", "removeByConfig", "replaceOrAdd"}
	} else if rapid.Bool().Draw(rt, "oneStable") {
		// one stable epoch, volatile epochs toggling around it, readers repeating their queries
		c.OneStable = rapid.IntRange(1, 2).Draw(rt, "whichStable")
		c.Repeat = rapid.SampledFrom([]int{10, 40, 100}).Draw(rt, "repeat")
		wk = []string{"add", "remove", "toggle", "toggle", "replace"}
	}
	rk := vfC09ReaderKinds
	if c.OneStable > 0 {
		// the signature search is the query whose routing depends on how many epochs are loaded
		rk = append(append([]string{}, rk...), "getTransaction", "getTransaction", "getTransaction", "getTransaction", "getBlock", "grpcGetBlock")
	}
	for i := 0; i < nr; i++ {
		c.Readers = append(c.Readers, rapid.SliceOfN(opGen(rk), 5, maxOps).Draw(rt, "readerOps"))
	}
	for i := 0; i < nw; i++ {
		n := maxOps * 4
		if c.ClassB {
			n = 12
		}
		c.Writers = append(c.Writers, rapid.SliceOfN(opGen(wk), 3, n).Draw(rt, "writerOps"))
	}
	return c
}

// TestVfC09CloseProbe runs in a child process (VF_C09_PROBE=1) and reproduces the open finding
// epoch-closed-under-inflight-read: getTransaction queries addressed to an epoch that stays loaded, while a newer
// epoch is loaded from its configuration, replaced and removed by configuration path (what --watch does). The
// signature search consults every loaded epoch and returns with the first hit; RemoveEpochByConfigFilepath /
// ReplaceOrAddEpoch close the old epoch, which unmaps its index files under the searches still running on them.
func TestVfC09CloseProbe(t *testing.T) {
	if os.Getenv("VF_C09_PROBE") != "1" {
		t.Skip("probe of a known finding; run by TestVfC09Stress in a child process")
	}
	w, err := vfC09setup()
	if err != nil {
		t.Fatalf("harness: %v", err)
	}
	// Many short-lived servers side by side: three epochs freshly loaded from their configuration files (cold
	// mappings), one getTransaction for a signature of the newest epoch (the search tries the newest epoch first
	// and returns with that hit while the searches of the two older epochs are still running), then the two older
	// epochs are removed by configuration path, as --watch does when their files disappear.
	all := append(append([]*cargen.Epoch{}, w.stable...), w.volatile...)
	sort.Slice(all, func(i, j int) bool { return all[i].Num < all[j].Num })
	three := all[len(all)-3:]
	stop := time.Now().Add(time.Duration(vfh.EnvInt("VF_C09_PROBE_S", 60)) * time.Second)
	var wg sync.WaitGroup
	var rounds atomic.Int64
	for g := 0; g < 16; g++ {
		wg.Add(1)
		go func(g int) {
			defer wg.Done()
			for i := 0; time.Now().Before(stop); i++ {
				m := NewMultiEpoch(&Options{EpochSearchConcurrency: 1 + (i+g)%3})
				cache := vfNewCache()
				for _, ep := range three {
					e, err := w.envs[ep.Num].Load(cache)
					if err != nil {
						return
					}
					m.AddEpoch(ep.Num, e)
				}
				h := newMultiEpochHandler(m, nil)
				newest := three[len(three)-1]
				tx := newest.Txs[(i+g)%len(newest.Txs)]
				vfCallRaw0(h, "POST", "/", []byte(fmt.Sprintf(`{"jsonrpc":"2.0","id":1,"method":"getTransaction","params":[%q,{"encoding":"base64"}]}`, tx.Sig.String())))
				m.RemoveEpochByConfigFilepath(w.envs[three[0].Num].ConfigPath)
				m.RemoveEpochByConfigFilepath(w.envs[three[1].Num].ConfigPath)
				rounds.Add(1)
				vfQuiesce()
				m.Close()
			}
		}(g)
	}
	wg.Wait()
	fmt.Printf("VF-PROBE rounds=%d\n", rounds.Load())
	fmt.Println("VF-PROBE survived")
}

// vfC09probeClose runs the probe in a child process and reports whether the server process died of a memory fault.
func vfC09probeClose() (reproduced bool, detail string) {
	cmd := exec.Command(os.Args[0], "-test.run", "^TestVfC09CloseProbe$", "-test.count=1", "-test.timeout", "300s")
	cmd.Env = append(os.Environ(), "VF_C09_PROBE=1")
	out, _ := cmd.CombinedOutput()
	s := string(out)
	if strings.Contains(s, "VF-PROBE survived") {
		return false, "the probe ran to its end"
	}
	for _, sig := range []string{"unexpected fault address", "fatal error: fault", "SIGSEGV", "SIGBUS"} {
		if i := strings.Index(s, sig); i >= 0 {
			// keep the first frames of the faulting goroutine
			return true, vfh.Short(s[i:], 1200)
		}
	}
	return false, "the probe ended without a verdict: " + vfh.Short(s, 400)
}

func TestVfC09Stress(t *testing.T) {
	run := vfh.Begin("C09", "stress")
	defer run.End(t)
	w, err := vfC09setup()
	if err != nil {
		t.Fatalf("harness: %v", err)
	}
	run.Require("class:A", "class:B", "overlap", "one-stable-epoch")
	// Open finding (known_findings.json): an epoch closed under reads that are still in flight faults the process.
	// The stress programs exclude that class by construction (class B readers address only stable epochs by slot);
	// shard 0 probes it in a child process and reports it only while it still reproduces.
	if shard, _ := vfh.Shard(); shard == 0 && vfh.KnownOpen("C09", "epoch-closed-under-inflight-read") {
		if ok, detail := vfC09probeClose(); ok {
			run.KnownFinding("epoch-closed-under-inflight-read", "getTransaction queries to an epoch that stays loaded crash the server (memory fault in a read of an unmapped index file) when another epoch is replaced / removed by configuration path while their epoch search is still running on it (reproduced in this run in a child process)")
			run.Note("known_finding_probe", detail)
			run.Excluded("queries that consult an epoch while it is being closed (known finding epoch-closed-under-inflight-read)")
		} else {
			run.Note("known_finding_probe", "NOT reproduced: "+detail)
		}
	}
	lastInput := filepath.Join(os.Getenv("VERIF_TMP"), "last-input.json")
	os.MkdirAll(filepath.Dir(lastInput), 0o755)
	for _, p := range vfh.ReplayFiles("C09", "stress") {
		var c vfC09Case
		if err := vfh.LoadCaseFile(p, &c); err != nil {
			t.Fatalf("regress %s: %v", p, err)
		}
		run.SetLast(&c)
		if b, err := json.Marshal(&c); err == nil {
			os.WriteFile(lastInput, b, 0o644)
		}
		for i := 0; i < 5; i++ {
			var st vfC09Stats
			if err := vfC09eval(w, &c, &st); err != nil {
				t.Fatalf("regression case %s: C09 violated: %v", filepath.Base(p), err)
			}
		}
		run.Class("regress-replayed")
	}
	rapid.Check(t, func(rt *rapid.T) {
		c := vfC09gen(rt, 60)
		run.SetLast(c)
		if b, err := json.Marshal(c); err == nil {
			os.WriteFile(lastInput, b, 0o644) // a fatal runtime error (e.g. concurrent map access) is attributed to this program
		}
		var st vfC09Stats
		err := vfC09eval(w, c, &st)
		cls := []string{"class:A"}
		if c.ClassB {
			cls = []string{"class:B"}
		}
		if c.OneStable > 0 {
			cls = append(cls, "one-stable-epoch")
		}
		if st.overlap {
			cls = append(cls, "overlap")
		}
		run.Case(c, len(c.Readers) >= 2 && len(c.Writers) >= 1 && st.overlap, map[string]any{"readers": len(c.Readers), "writers": len(c.Writers), "classB": c.ClassB, "procs": c.Procs, "ops": st.ops}, cls...)
		if err != nil {
			if strings.HasPrefix(err.Error(), "VF-INCONCLUSIVE") {
				rt.Skip(err.Error())
			}
			rt.Fatalf("C09 violated: %v", err)
		}
	})
}

// TestVfC09Monitor runs generated op lists single-threaded against the build in
// which MultiEpoch.mu is the instrumented mutex; any hazardous acquisition
// (nested RLock, Lock under RLock) executed by an operation is reported.
func TestVfC09Monitor(t *testing.T) {
	run := vfh.Begin("C09", "lock-monitor")
	defer run.End(t)
	if _, ok := any(&NewMultiEpoch(&Options{}).mu).(interface{ RLock() }); !ok {
		t.Fatalf("harness: MultiEpoch.mu has no RLock")
	}
	instrumented := fmt.Sprintf("%T", &NewMultiEpoch(&Options{}).mu) == "*main.vfRWMutex"
	run.Note("instrumented_mutex", instrumented)
	if !instrumented {
		// transform not applied (struct changed): nothing to monitor, report inconclusive through the required class
		run.Require("instrumented")
		return
	}
	run.Require("instrumented", "reader-op", "writer-op")
	w, err := vfC09setup()
	if err != nil {
		t.Fatalf("harness: %v", err)
	}
	takeEvents := vfC09takeEvents
	rapid.Check(t, func(rt *rapid.T) {
		kinds := append(append([]string{}, vfC09ReaderKinds...), "add", "remove", "replace", "replaceOrAdd", "removeByConfig")
		ops := rapid.SliceOfN(rapid.Custom(func(t *rapid.T) vfC09Op {
			return vfC09Op{Kind: rapid.SampledFrom(kinds).Draw(t, "op"), Arg: rapid.IntRange(0, 50).Draw(t, "arg")}
		}), 1, 40).Draw(rt, "ops")
		c := &vfC09Case{Readers: [][]vfC09Op{ops}}
		run.SetLast(c)
		m := NewMultiEpoch(&Options{EpochSearchConcurrency: 2})
		for _, ep := range w.stable {
			m.AddEpoch(ep.Num, w.objs[ep.Num])
		}
		m.AddEpoch(w.volatile[0].Num, w.objs[w.volatile[0].Num])
		h := newMultiEpochHandler(m, nil)
		takeEvents()
		cls := []string{"instrumented"}
		for i, op := range ops {
			isWriter := op.Kind == "add" || op.Kind == "remove" || op.Kind == "replace" || op.Kind == "replaceOrAdd" || op.Kind == "removeByConfig"
			var err error
			if isWriter {
				cls = append(cls, "writer-op")
				err = w.writer(m, op, false, nil)
			} else {
				cls = append(cls, "reader-op")
				err = w.reader(m, h, op, false)
			}
			ev, nlocks := takeEvents()
			run.ClassN("lock-acquisitions-observed", nlocks)
			if len(ev) > 0 {
				run.Case(c, true, nil, cls...)
				rt.Fatalf("C09 violated: operation %d (%s) performs a %s\n(with a writer queued between the two acquisitions every later reader blocks forever)", i, op.Kind, ev[0])
			}
			if err != nil {
				run.Case(c, true, nil, cls...)
				rt.Fatalf("C09 violated: %v", err)
			}
		}
		run.Case(c, len(ops) >= 2, map[string]any{"ops": ops[:min(len(ops), 6)]}, cls...)
	})
}

// replaced by the instrumented-mutex source file of the monitor build
var vfC09takeEvents = func() ([]string, int) { return nil, 0 }

var _ = bytes.Equal
var _ = os.Getenv
var _ = sort.Ints

func TestVfReplayC09(t *testing.T) {
	var c vfC09Case
	if !vfh.LoadReplay(t, &c) {
		t.Skip("no VERIF_REPLAY")
	}
	w, err := vfC09setup()
	if err != nil {
		t.Fatalf("harness: %v", err)
	}
	for i := 0; i < 20; i++ {
		var st vfC09Stats
		if err := vfC09eval(w, &c, &st); err != nil {
			t.Fatalf("C09 violated: %v", err)
		}
	}
}
