package main

// C18: FirstSuccess / JobGroup.RunWithConcurrency under every outcome vector,
// concurrency limit and feasible completion order. The harness owns every
// blocking point: each job signals its start and then waits on its own gate.

import (
	"context"
	"errors"
	"fmt"
	"runtime"
	"sort"
	"testing"
	"time"

	"github.com/rpcpool/yellowstone-faithful/compactindexsized"
	"github.com/rpcpool/yellowstone-faithful/zz_verif/vfh"
	"pgregory.net/rapid"
)

type vfC18Case struct {
	Outcomes []int // per job: 0 success, 1 error, 2 not-found error, 3 an error wrapping context.DeadlineExceeded / context.Canceled of the job's own I/O (the request context stays live)
	Limit    int   // -1 unlimited, else 1..n
	Order    []int // completion order (a permutation of the jobs, feasible for Limit)
	ViaGroup bool  // call through JobGroup.RunWithConcurrency
}

type vfC18Res struct {
	val uint64
	err error
}

func vfC18eval(c *vfC18Case) error {
	n := len(c.Outcomes)
	started := make([]chan struct{}, n)
	gates := make([]chan struct{}, n)
	done := make([]chan struct{}, n)
	jobErr := make([]error, n)
	fns := make([]JobFunc[uint64], n)
	for i := 0; i < n; i++ {
		i := i
		started[i], gates[i], done[i] = make(chan struct{}), make(chan struct{}), make(chan struct{})
		switch c.Outcomes[i] {
		case 1:
			jobErr[i] = fmt.Errorf("job %d failed", i)
		case 2:
			jobErr[i] = fmt.Errorf("job %d: %w", i, compactindexsized.ErrNotFound)
		case 3:
			if i%2 == 0 {
				jobErr[i] = fmt.Errorf("job %d: remote index read: %w", i, context.DeadlineExceeded)
			} else {
				jobErr[i] = fmt.Errorf("job %d: remote index read: %w", i, context.Canceled)
			}
		}
		fns[i] = func(ctx context.Context) (uint64, error) {
			close(started[i])
			<-gates[i]
			defer close(done[i])
			if jobErr[i] != nil {
				return 900 + uint64(i), jobErr[i] // a value that must never be reported
			}
			return 100 + uint64(i), nil
		}
	}
	base := runtime.NumGoroutine()
	resCh := make(chan vfC18Res, 1)
	go func() {
		var v uint64
		var err error
		if c.ViaGroup {
			g := NewJobGroup[uint64]()
			for _, f := range fns {
				g.Add(f)
			}
			v, err = g.RunWithConcurrency(context.Background(), c.Limit)
		} else {
			v, err = FirstSuccess(context.Background(), c.Limit, fns...)
		}
		resCh <- vfC18Res{v, err}
	}()
	opened := make([]bool, n)
	deviated := false
	for _, j := range c.Order {
		select {
		case <-started[j]:
		case <-time.After(3 * time.Second):
			// the implementation did not start this job although the planned schedule is
			// feasible for the documented limit: stop steering, release everything and
			// still judge the result (the oracle holds for every completion order)
			deviated = true
		}
		if deviated {
			break
		}
		close(gates[j])
		opened[j] = true
		select {
		case <-done[j]:
		case <-time.After(10 * time.Second):
			return fmt.Errorf("job %d did not finish after its gate was opened", j)
		}
		for k := 0; k < 4; k++ {
			runtime.Gosched()
		}
	}
	for j := 0; j < n; j++ {
		if !opened[j] {
			close(gates[j])
		}
	}
	var res vfC18Res
	select {
	case res = <-resCh:
	case <-time.After(30 * time.Second):
		return fmt.Errorf("search did not terminate within 30s after all jobs were released (outcomes %v limit %d order %v)", c.Outcomes, c.Limit, c.Order)
	}
	anySuccess := false
	for _, o := range c.Outcomes {
		if o == 0 {
			anySuccess = true
		}
	}
	if anySuccess {
		if res.err != nil {
			return fmt.Errorf("a job succeeded but the search returned error %v", res.err)
		}
		ok := false
		for i, o := range c.Outcomes {
			if o == 0 && res.val == 100+uint64(i) {
				ok = true
			}
		}
		if !ok {
			return fmt.Errorf("search returned value %d which no successful job produced", res.val)
		}
	} else {
		if res.err == nil {
			return fmt.Errorf("no job succeeded but the search reported success with value %d", res.val)
		}
		es, ok := res.err.(ErrorSlice)
		if !ok {
			return fmt.Errorf("all jobs failed: expected an ErrorSlice, got %T %v", res.err, res.err)
		}
		var got, want []string
		for _, e := range es {
			if e == nil {
				got = append(got, "<nil>")
			} else {
				got = append(got, e.Error())
			}
		}
		for _, e := range jobErr {
			want = append(want, e.Error())
		}
		sort.Strings(got)
		sort.Strings(want)
		if fmt.Sprint(got) != fmt.Sprint(want) {
			return fmt.Errorf("all jobs failed: error list %v is not the complete list %v", got, want)
		}
		// the caller's classification must still work
		allNF := true
		for _, o := range c.Outcomes {
			if o != 2 {
				allNF = false
			}
		}
		if es.All(func(e error) bool { return errors.Is(e, compactindexsized.ErrNotFound) }) != allNF {
			return fmt.Errorf("not-found classification of the error list is wrong")
		}
	}
	// all jobs must have run to completion and no goroutine of the call may stay blocked
	for j := 0; j < n; j++ {
		select {
		case <-done[j]:
		case <-time.After(10 * time.Second):
			return fmt.Errorf("job %d never ran to completion", j)
		}
	}
	deadline := time.Now().Add(5 * time.Second)
	for runtime.NumGoroutine() > base {
		if time.Now().After(deadline) {
			return fmt.Errorf("%d goroutine(s) of the search are still alive 5s after it returned", runtime.NumGoroutine()-base)
		}
		time.Sleep(200 * time.Microsecond)
	}
	return nil
}

// vfC18orders enumerates every completion order feasible for the limit: jobs
// start in index order, at most `limit` are in flight.
func vfC18orders(n, limit int, visit func([]int)) {
	if limit <= 0 || limit > n {
		limit = n
	}
	doneSet := make([]bool, n)
	order := make([]int, 0, n)
	var rec func(completed int)
	rec = func(completed int) {
		if completed == n {
			visit(append([]int{}, order...))
			return
		}
		startedUpTo := completed + limit
		if startedUpTo > n {
			startedUpTo = n
		}
		for j := 0; j < startedUpTo; j++ {
			if doneSet[j] {
				continue
			}
			doneSet[j] = true
			order = append(order, j)
			rec(completed + 1)
			order = order[:len(order)-1]
			doneSet[j] = false
		}
	}
	rec(0)
}

func vfC18nontrivial(c *vfC18Case) bool {
	if len(c.Outcomes) < 2 {
		return false
	}
	hasS, hasF := false, false
	for _, o := range c.Outcomes {
		if o == 0 {
			hasS = true
		} else {
			hasF = true
		}
	}
	return hasS && hasF && c.Outcomes[c.Order[0]] != 0
}

// TestVfC18Exhaustive enumerates all schedules for n <= VERIF_C18_MAXN.
func TestVfC18Exhaustive(t *testing.T) {
	run := vfh.Begin("C18", "exhaustive")
	defer run.End(t)
	maxN := vfh.EnvInt("VERIF_C18_MAXN", 3)
	shard, shards := vfh.Shard()
	idx := 0
	samples := 0
	for n := 1; n <= maxN; n++ {
		total := 1
		for i := 0; i < n; i++ {
			total *= 4
		}
		for code := 0; code < total; code++ {
			outcomes := make([]int, n)
			x := code
			for i := range outcomes {
				outcomes[i] = x % 4
				x /= 4
			}
			limits := []int{-1}
			for k := 1; k <= n; k++ {
				limits = append(limits, k)
			}
			for _, limit := range limits {
				var failed error
				vfC18orders(n, limit, func(order []int) {
					if failed != nil {
						return
					}
					idx++
					if idx%shards != shard {
						return
					}
					c := &vfC18Case{Outcomes: outcomes, Limit: limit, Order: order, ViaGroup: idx%2 == 0}
					run.SetLast(c)
					nt := vfC18nontrivial(c)
					var smp any
					if nt && samples < 4 {
						smp = c
						samples++
					}
					run.Case(c, nt, smp, fmt.Sprintf("n=%d", n), fmt.Sprintf("limit=%d", limit))
					if err := vfC18eval(c); err != nil {
						failed = err
					}
				})
				if failed != nil {
					t.Fatalf("C18 violated: %v", failed)
				}
			}
		}
	}
	run.Note("exhaustive_up_to_n", maxN)
}

// TestVfC18Rapid samples larger job counts.
func TestVfC18Rapid(t *testing.T) {
	run := vfh.Begin("C18", "sampled")
	defer run.End(t)
	maxN := vfh.Pick(6, 9)
	rapid.Check(t, func(rt *rapid.T) {
		n := rapid.IntRange(4, maxN).Draw(rt, "n")
		c := &vfC18Case{}
		c.Outcomes = rapid.SliceOfN(rapid.SampledFrom([]int{0, 1, 1, 2, 2, 3, 3}), n, n).Draw(rt, "outcomes")
		c.Limit = rapid.SampledFrom([]int{-1, 1, 2, 3, n - 1, n}).Draw(rt, "limit")
		c.ViaGroup = rapid.Bool().Draw(rt, "viaGroup")
		limit := c.Limit
		if limit <= 0 || limit > n {
			limit = n
		}
		doneSet := make([]bool, n)
		for completed := 0; completed < n; completed++ {
			upTo := completed + limit
			if upTo > n {
				upTo = n
			}
			var cand []int
			for j := 0; j < upTo; j++ {
				if !doneSet[j] {
					cand = append(cand, j)
				}
			}
			j := rapid.SampledFrom(cand).Draw(rt, "next")
			doneSet[j] = true
			c.Order = append(c.Order, j)
		}
		run.SetLast(c)
		run.Case(c, vfC18nontrivial(c), c, fmt.Sprintf("n=%d", n))
		if err := vfC18eval(c); err != nil {
			rt.Fatalf("C18 violated: %v", err)
		}
	})
}

func TestVfReplayC18(t *testing.T) {
	var c vfC18Case
	if !vfh.LoadReplay(t, &c) {
		t.Skip("no VERIF_REPLAY")
	}
	for i := 0; i < 50; i++ {
		if err := vfC18eval(&c); err != nil {
			t.Fatalf("C18 violated: %v", err)
		}
	}
}
