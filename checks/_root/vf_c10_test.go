package main

// C10: an epoch loads only from indexes built for that epoch and CAR.

import (
	"bytes"
	"context"
	"crypto/sha256"
	"encoding/binary"
	"fmt"
	"os"
	"path/filepath"
	"testing"

	"github.com/ipfs/go-cid"
	mh "github.com/multiformats/go-multihash"
	"github.com/rpcpool/yellowstone-faithful/indexes"
	"github.com/rpcpool/yellowstone-faithful/indexmeta"
	"github.com/rpcpool/yellowstone-faithful/zz_verif/cargen"
	"github.com/rpcpool/yellowstone-faithful/zz_verif/vfh"
	"pgregory.net/rapid"
)

type vfC10Case struct {
	A, B, A2 *cargen.EpochSpec // B: another epoch; A2: same epoch as A, other content
}

var vfC10Roles = []string{"cid_to_offset_and_size", "slot_to_cid", "sig_to_cid", "sig_exists", "gsfa", "slot_to_blocktime"}

func vfRoleFile(e *vfEpochEnv, role string) string {
	switch role {
	case "cid_to_offset_and_size":
		return e.Paths.CidToOffsetAndSize
	case "slot_to_cid":
		return e.Paths.SlotToCid
	case "sig_to_cid":
		return e.Paths.SignatureToCid
	case "sig_exists":
		return e.Paths.SignatureExists
	case "gsfa":
		return e.GsfaDir
	case "slot_to_blocktime":
		return e.Paths.SlotToBlocktime
	}
	return ""
}

type vfC10Src struct {
	Env   string // "A", "B", "A2"
	Role  string // which role's file of that env
	Patch string // "", "epoch" (-> B's epoch), "root" (-> A2's root): A's file with exactly one identity field replaced
}

// vfPatchMeta returns a copy of the file in which the value of one metadata
// key (indexmeta layout: len(key) key len(value) value) is replaced by a value
// of the same length.
func vfPatchMeta(src, dst string, key, newVal []byte) bool {
	raw, err := os.ReadFile(src)
	if err != nil {
		return false
	}
	pat := append(append([]byte{byte(len(key))}, key...), byte(len(newVal)))
	limit := len(raw)
	if limit > 4096 {
		limit = 4096
	}
	i := bytes.Index(raw[:limit], pat)
	if i < 0 || i+len(pat)+len(newVal) > len(raw) {
		return false
	}
	copy(raw[i+len(pat):], newVal)
	return os.WriteFile(dst, raw, 0o644) == nil
}

func vfCopyDir(src, dst string) error {
	os.MkdirAll(dst, 0o755)
	ents, err := os.ReadDir(src)
	if err != nil {
		return err
	}
	for _, e := range ents {
		b, err := os.ReadFile(filepath.Join(src, e.Name()))
		if err != nil {
			return err
		}
		if err := os.WriteFile(filepath.Join(dst, e.Name()), b, 0o644); err != nil {
			return err
		}
	}
	return nil
}

// vfC10expectFail decides from identity fields alone whether loading must fail.
func vfC10expectFail(assign map[string]vfC10Src, epochOf map[string]uint64, rootOf map[string]string, cfgEpoch uint64) (bool, string) {
	roots := map[string]bool{}
	for _, role := range vfC10Roles {
		src := assign[role]
		if src.Role != role {
			return true, fmt.Sprintf("%s is the %s file", role, src.Role)
		}
		if src.Patch == "epoch" {
			return true, fmt.Sprintf("the epoch field of %s was replaced by %d, config says %d", role, epochOf["B"], cfgEpoch)
		}
		if src.Patch == "inner-kind" {
			return true, "the offsets index inside the gsfa directory is a cid-to-offset-and-size file (same value layout, another kind)"
		}
		if src.Patch == "forged-epoch" {
			// B's file whose recorded epoch was overwritten with the configured one: everything else in it still
			// belongs to B (its slot range for slot-to-blocktime, its root CID for the others)
			if role == "slot_to_blocktime" {
				return true, fmt.Sprintf("%s covers the slots of epoch %d although its epoch field was forged to %d", role, epochOf["B"], cfgEpoch)
			}
			roots[rootOf["B"]] = true
			continue
		}
		if src.Patch == "root" {
			roots[rootOf["A2"]] = true
			continue
		}
		if epochOf[src.Env] != cfgEpoch {
			return true, fmt.Sprintf("%s records epoch %d, config says %d", role, epochOf[src.Env], cfgEpoch)
		}
		if role != "slot_to_blocktime" {
			roots[rootOf[src.Env]] = true
		}
	}
	if len(roots) > 1 {
		return true, "the indexes record different root CIDs"
	}
	return false, ""
}

func vfC10eval(c *vfC10Case, st map[string]int) error {
	dir := vfh.TmpDir("c10")
	defer vfCloseLeaked(dir) // configurations that are refused leave the files opened before the refusal to the collector
	defer os.RemoveAll(dir)
	envs := map[string]*vfEpochEnv{}
	gens := map[string]*cargen.Epoch{}
	for name, spec := range map[string]*cargen.EpochSpec{"A": c.A, "B": c.B, "A2": c.A2} {
		ep, err := cargen.Build(spec)
		if err != nil {
			return fmt.Errorf("harness: %v", err)
		}
		if len(ep.Blocks) == 0 || len(ep.Txs) == 0 {
			return nil
		}
		env, err := vfBuildEpoch(filepath.Join(dir, name), ep, vfBuildOpts{Gsfa: true})
		if err != nil {
			return fmt.Errorf("building %s: %v", name, err)
		}
		defer env.Close()
		envs[name] = env
		gens[name] = ep
	}
	if gens["A"].Root.Equals(gens["A2"].Root) || gens["A"].Num == gens["B"].Num {
		return nil
	}
	epochOf := map[string]uint64{"A": gens["A"].Num, "B": gens["B"].Num, "A2": gens["A2"].Num}
	rootOf := map[string]string{"A": gens["A"].Root.String(), "B": gens["B"].Root.String(), "A2": gens["A2"].Root.String()}
	cfgEpoch := gens["A"].Num
	cache := vfNewCache()
	n := 0
	// A's files with exactly one identity field replaced
	patched := map[string]string{}
	epochB := make([]byte, 8)
	binary.LittleEndian.PutUint64(epochB, gens["B"].Num)
	rootA2 := gens["A2"].Root.Bytes()
	for _, role := range []string{"cid_to_offset_and_size", "slot_to_cid", "sig_to_cid", "sig_exists", "gsfa"} {
		for field, val := range map[string][]byte{"epoch": epochB, "root": rootA2} {
			key := indexmeta.MetadataKey_Epoch
			if field == "root" {
				key = indexmeta.MetadataKey_RootCid
				if len(rootA2) != len(gens["A"].Root.Bytes()) {
					continue
				}
			}
			src := vfRoleFile(envs["A"], role)
			dst := filepath.Join(dir, "patched-"+role+"-"+field)
			ok := false
			if role == "gsfa" {
				if vfCopyDir(src, dst) == nil {
					ok = vfPatchMeta(filepath.Join(src, "manifest"), filepath.Join(dst, "manifest"), key, val)
				}
			} else {
				ok = vfPatchMeta(src, dst, key, val)
			}
			if ok {
				patched[role+"/"+field] = dst
			}
		}
	}
	// B's files with their epoch field overwritten by A's epoch (a file of another epoch dressed up for this one)
	epochA := make([]byte, 8)
	binary.LittleEndian.PutUint64(epochA, gens["A"].Num)
	for _, role := range []string{"cid_to_offset_and_size", "slot_to_cid", "sig_to_cid", "sig_exists", "slot_to_blocktime"} {
		src := vfRoleFile(envs["B"], role)
		dst := filepath.Join(dir, "forged-"+role)
		ok := false
		if role == "slot_to_blocktime" {
			// header: magic (14 bytes), start, end, epoch, capacity (8 bytes each, little endian)
			if raw, err := os.ReadFile(src); err == nil && len(raw) >= 46 {
				copy(raw[30:38], epochA)
				ok = os.WriteFile(dst, raw, 0o644) == nil
			}
		} else {
			ok = vfPatchMeta(src, dst, indexmeta.MetadataKey_Epoch, epochA)
		}
		if ok {
			patched[role+"/forged-epoch"] = dst
		}
	}
	// A's address-index directory whose offsets index is replaced by A's cid-to-offset-and-size index: another
	// index kind with the same 9-byte value layout, same epoch, same root
	{
		dst := filepath.Join(dir, "gsfa-inner-kind")
		if vfCopyDir(vfRoleFile(envs["A"], "gsfa"), dst) == nil {
			if raw, err := os.ReadFile(vfRoleFile(envs["A"], "cid_to_offset_and_size")); err == nil {
				if os.WriteFile(filepath.Join(dst, string(indexes.Kind_PubkeyToOffsetAndSize)+".index"), raw, 0o644) == nil {
					patched["gsfa/inner-kind"] = dst
				}
			}
		}
	}
	try := func(assign map[string]vfC10Src, label string) error {
		n++
		over := map[string]string{}
		for _, role := range vfC10Roles {
			src := assign[role]
			over[role] = vfRoleFile(envs[src.Env], src.Role)
			if src.Patch != "" {
				over[role] = patched[role+"/"+src.Patch]
			}
		}
		cfgPath := filepath.Join(dir, fmt.Sprintf("cfg-%d.yaml", n))
		if err := os.WriteFile(cfgPath, []byte(envs["A"].configYAML(over)), 0o644); err != nil {
			return err
		}
		mustFail, why := vfC10expectFail(assign, epochOf, rootOf, cfgEpoch)
		var ep *Epoch
		err, panicked := vfh.Catch(func() error {
			var e error
			ep, e = vfLoadEpochFrom(cfgPath, cache)
			return e
		})
		if panicked {
			// a crash on a foreign file is judged by C12; here it still counts as "did not load"
			st["load-panicked"]++
			err = fmt.Errorf("panic")
		}
		if ep != nil && err == nil {
			defer ep.Close()
		}
		if mustFail {
			st["must-fail"]++
			if err == nil {
				return fmt.Errorf("config [%s] loaded although %s", label, why)
			}
			return nil
		}
		st["must-load"]++
		if err != nil {
			return fmt.Errorf("config [%s] with consistent identity fields failed to load: %v", label, err)
		}
		return nil
	}
	base := map[string]vfC10Src{}
	for _, r := range vfC10Roles {
		base[r] = vfC10Src{"A", r, ""}
	}
	clone := func() map[string]vfC10Src {
		m := map[string]vfC10Src{}
		for k, v := range base {
			m[k] = v
		}
		return m
	}
	if err := try(base, "everything from A"); err != nil {
		return err
	}
	// Filecoin retrieval enabled with a root CID other than the one the indexes record (the CAR section is still
	// in the file): the configured Filecoin root must be compared with the indexes and the load refused. (With the
	// matching root the loader would go on to the network, which is not available here.)
	{
		cfgPath := filepath.Join(dir, "cfg-filecoin-root.yaml")
		if err := os.WriteFile(cfgPath, []byte(envs["A"].configYAML(map[string]string{"filecoin_root": rootOf["A2"]})), 0o644); err != nil {
			return err
		}
		st["filecoin-root-mismatch"]++
		var ep *Epoch
		lerr, _ := vfh.Catch(func() error {
			var e error
			ep, e = vfLoadEpochFrom(cfgPath, cache)
			return e
		})
		if lerr == nil {
			if ep != nil {
				ep.Close()
			}
			return fmt.Errorf("config [A with data.filecoin enabled and root_cid of A2] loaded although the configured Filecoin root %s differs from the root %s the indexes record", rootOf["A2"], rootOf["A"])
		}
	}
	// metadata written at build time is read back unchanged
	{
		ep, err := envs["A"].Load(cache)
		if err != nil {
			return fmt.Errorf("loading A: %v", err)
		}
		if ep.rootCid.String() != rootOf["A"] || ep.Epoch() != cfgEpoch {
			ep.Close()
			return fmt.Errorf("loaded epoch reports epoch %d root %s, built for epoch %d root %s", ep.Epoch(), ep.rootCid, cfgEpoch, rootOf["A"])
		}
		gm := ep.gsfaReader.Meta()
		ge, _ := gm.GetUint64(indexmeta.MetadataKey_Epoch)
		gr, _ := gm.GetCid(indexmeta.MetadataKey_RootCid)
		if ge != cfgEpoch || gr.String() != rootOf["A"] {
			ep.Close()
			return fmt.Errorf("gsfa manifest reads back epoch %d root %s, written epoch %d root %s", ge, gr, cfgEpoch, rootOf["A"])
		}
		ep.Close()
	}
	// single substitutions: same role from B / A2, and every other role's file from A
	var subs []map[string]vfC10Src
	var labels []string
	for _, role := range vfC10Roles {
		for _, env := range []string{"B", "A2"} {
			m := clone()
			m[role] = vfC10Src{env, role, ""}
			subs = append(subs, m)
			labels = append(labels, fmt.Sprintf("%s from %s", role, env))
		}
		for _, other := range vfC10Roles {
			if other == role || role == "gsfa" || other == "gsfa" {
				continue // a directory cannot stand in for a file and vice versa (the open fails trivially)
			}
			m := clone()
			m[role] = vfC10Src{"A", other, ""}
			subs = append(subs, m)
			labels = append(labels, fmt.Sprintf("%s <- A's %s file", role, other))
		}
	}
	// A's own files with exactly one identity field replaced (epoch of B / root of A2), and B's files with their
	// epoch field forged to A's
	for k := range patched {
		role, field := filepath.Dir(k), filepath.Base(k)
		m := clone()
		if field == "inner-kind" {
			m[role] = vfC10Src{"A", role, field}
			subs = append(subs, m)
			labels = append(labels, "gsfa directory of A with a cid-to-offset-and-size file as its offsets index")
			st["field-patch:gsfa-inner-kind"]++
			continue
		}
		if field == "forged-epoch" {
			m[role] = vfC10Src{"B", role, field}
			subs = append(subs, m)
			labels = append(labels, fmt.Sprintf("%s of B with its epoch field forged to the configured epoch", role))
			st["field-patch:forged-epoch"]++
			continue
		}
		m[role] = vfC10Src{"A", role, field}
		subs = append(subs, m)
		labels = append(labels, fmt.Sprintf("%s of A with its %s field replaced", role, field))
		st["field-patch:"+field]++
	}
	// pairs
	for i, r1 := range vfC10Roles {
		for _, r2 := range vfC10Roles[i+1:] {
			for _, e1 := range []string{"B", "A2"} {
				for _, e2 := range []string{"B", "A2"} {
					m := clone()
					m[r1] = vfC10Src{e1, r1, ""}
					m[r2] = vfC10Src{e2, r2, ""}
					subs = append(subs, m)
					labels = append(labels, fmt.Sprintf("%s from %s + %s from %s", r1, e1, r2, e2))
				}
			}
		}
	}
	// every root-bearing index from A2 (consistent among themselves): loads; block time from A2 alone is undetectable
	{
		m := clone()
		for _, r := range vfC10Roles {
			m[r] = vfC10Src{"A2", r, ""}
		}
		subs = append(subs, m)
		labels = append(labels, "all indexes from A2, CAR from A")
	}
	for i, m := range subs {
		if err := try(m, labels[i]); err != nil {
			return err
		}
	}
	st["configs"] = n
	// CAR of A with the (self-consistent) indexes of A2 and vice versa: CID fetches fail or return the right bytes
	// ... and a CAR with exactly the section layout of A (same offsets and lengths) but other objects: every
	// payload altered and stored under the CID of the altered bytes. The index offsets of A land on section
	// boundaries of this file; only the CID comparison tells the two apart.
	shadow := filepath.Join(dir, "shadow-of-A.car")
	{
		raw, err := os.ReadFile(envs["A"].CarPath)
		if err != nil {
			return err
		}
		for i := range gens["A"].Objects {
			o := &gens["A"].Objects[i]
			sec := raw[o.Offset : o.Offset+o.SectionLen]
			cb := o.Cid.Bytes()
			at := bytes.Index(sec, cb)
			if at < 0 || len(o.Data) == 0 {
				continue
			}
			data := sec[at+len(cb):]
			data[len(data)-1] ^= 0x5a
			sum, _ := mh.Sum(data, mh.SHA2_256, -1)
			if nb := cid.NewCidV1(o.Cid.Type(), sum).Bytes(); len(nb) == len(cb) {
				copy(sec[at:], nb)
			} else {
				data[len(data)-1] ^= 0x5a // a CID of another length would move the layout: leave this object as it is
			}
		}
		if err := os.WriteFile(shadow, raw, 0o644); err != nil {
			return err
		}
	}
	for _, pair := range [][2]string{{"A", "A2"}, {"A2", "A"}, {"shadow", "A"}} {
		carEnv, idxEnv := pair[0], pair[1]
		carURI := shadow
		if carEnv != "shadow" {
			carURI = envs[carEnv].CarURI
		}
		over := map[string]string{"car": carURI}
		for _, r := range vfC10Roles {
			over[r] = vfRoleFile(envs[idxEnv], r)
		}
		cfgPath := filepath.Join(dir, fmt.Sprintf("cfg-car-%s-idx-%s.yaml", carEnv, idxEnv))
		if err := os.WriteFile(cfgPath, []byte(envs["A"].configYAML(over)), 0o644); err != nil {
			return err
		}
		ep, err := vfLoadEpochFrom(cfgPath, vfNewCache())
		if err != nil {
			st["foreign-car-rejected-at-load"]++
			continue
		}
		// every object is asked for three times: answers served from the offset cache are judged like the first one
		for i3 := 0; i3 < 3*len(gens[idxEnv].Objects); i3++ {
			i := i3 / 3
			o := &gens[idxEnv].Objects[i]
			if carEnv == "shadow" {
				st["same-layout-foreign-car-fetches"]++
			}
			var data []byte
			err, _ := vfh.Catch(func() error {
				var e error
				data, e = ep.GetNodeByCid(context.Background(), o.Cid)
				return e
			})
			st["foreign-car-fetches"]++
			if err != nil {
				continue
			}
			dm, derr := mh.Decode(o.Cid.Hash())
			if derr == nil && dm.Code == mh.SHA2_256 {
				sum := sha256.Sum256(data)
				if !bytes.Equal(sum[:], dm.Digest) {
					ep.Close()
					return fmt.Errorf("CAR of %s served with the indexes of %s: GetNodeByCid(%s) returned %d bytes of a different object", carEnv, idxEnv, o.Cid, len(data))
				}
			} else if !bytes.Equal(data, o.Data) {
				ep.Close()
				return fmt.Errorf("CAR of %s served with the indexes of %s: GetNodeByCid(%s) returned other bytes", carEnv, idxEnv, o.Cid)
			}
		}
		ep.Close()
	}
	return nil
}

func TestVfC10(t *testing.T) {
	run := vfh.Begin("C10", "identity")
	defer run.End(t)
	run.Require("must-fail", "must-load", "foreign-car-fetches", "same-layout-foreign-car-fetches", "field-patch:epoch", "field-patch:root", "field-patch:forged-epoch", "field-patch:gsfa-inner-kind", "filecoin-root-mismatch")
	opts := cargen.DefaultOpts()
	opts.MaxBlocks = 5
	opts.BigFrames = false
	rapid.Check(t, func(rt *rapid.T) {
		c := &vfC10Case{A: cargen.Gen(rt, opts), B: cargen.Gen(rt, opts), A2: cargen.Gen(rt, opts)}
		c.A2.Epoch = c.A.Epoch
		c.A2.RootHash, c.A2.RootTrunc = c.A.RootHash, c.A.RootTrunc // same root CID length: the root field can be patched in place
		if c.A2.Seed == c.A.Seed {
			c.A2.Seed++
		}
		if c.B.Epoch == c.A.Epoch {
			c.B.Epoch = c.A.Epoch + 1
		}
		run.SetLast(c)
		st := map[string]int{}
		err, panicked := vfh.Catch(func() error { return vfC10eval(c, st) })
		var cls []string
		for k := range st {
			if k != "configs" {
				cls = append(cls, k)
			}
		}
		run.ClassN("configurations-tried", st["configs"])
		run.ClassN("foreign-car-cid-fetches", st["foreign-car-fetches"])
		run.Case(c, st["must-fail"] > 0, map[string]any{"epochA": c.A.Epoch, "epochB": c.B.Epoch, "stats": st}, cls...)
		if err != nil {
			if panicked {
				rt.Fatalf("C10 violated: panic: %v", err)
			}
			rt.Fatalf("C10 violated: %v", err)
		}
	})
}

func TestVfReplayC10(t *testing.T) {
	var c vfC10Case
	if !vfh.LoadReplay(t, &c) {
		t.Skip("no VERIF_REPLAY")
	}
	if err, _ := vfh.Catch(func() error { return vfC10eval(&c, map[string]int{}) }); err != nil {
		t.Fatalf("C10 violated: %v", err)
	}
}
