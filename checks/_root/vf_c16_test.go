package main

// C16 (writer side): the real split-car action on generated epoch CARs.

import (
	"bytes"
	"context"
	"encoding/base64"
	"encoding/binary"
	"fmt"
	"io"
	"os"
	"path/filepath"
	"testing"

	"github.com/anjor/carlet"
	"github.com/ipfs/go-cid"
	cidlink "github.com/ipld/go-ipld-prime/linking/cid"
	"github.com/rpcpool/yellowstone-faithful/iplddecoders"
	splitcarfetcher "github.com/rpcpool/yellowstone-faithful/split-car-fetcher"
	"github.com/rpcpool/yellowstone-faithful/zz_verif/cargen"
	"github.com/rpcpool/yellowstone-faithful/zz_verif/vfh"
	"github.com/urfave/cli/v2"
	"pgregory.net/rapid"
)

type vfC16SplitCase struct {
	Spec   *cargen.EpochSpec
	Target int64 // --size
	Mode   string
}

type vfFilePiece struct {
	f    *os.File
	size int64
}

func (p *vfFilePiece) ReadAt(b []byte, off int64) (int, error) { return p.f.ReadAt(b, off) }
func (p *vfFilePiece) Close() error                            { return p.f.Close() }
func (p *vfFilePiece) Size() int64                             { return p.size }

func vfC16splitEval(c *vfC16SplitCase) (pieces int, verr error) {
	vfQuiet()
	ep, err := cargen.Build(c.Spec)
	if err != nil {
		return 0, fmt.Errorf("harness: %v", err)
	}
	if len(ep.Blocks) == 0 {
		return 0, nil
	}
	dir, err := filepath.Abs(vfh.TmpDir("c16s"))
	if err != nil {
		return 0, err
	}
	defer os.RemoveAll(dir)
	carPath := filepath.Join(dir, "in.car")
	if err := ep.WriteFile(carPath); err != nil {
		return 0, err
	}
	out := filepath.Join(dir, "out")
	os.MkdirAll(out, 0o755)
	cwd, _ := os.Getwd()
	if err := os.Chdir(dir); err != nil {
		return 0, err
	}
	defer os.Chdir(cwd)
	app := &cli.App{Name: "vf", Commands: []*cli.Command{newCmd_SplitCar()}, ExitErrHandler: func(*cli.Context, error) {}}
	err = app.RunContext(context.Background(), []string{"vf", "split-car", fmt.Sprintf("--epoch=%d", ep.Num), fmt.Sprintf("--size=%d", c.Target), "--metadata=" + filepath.Join(dir, "metadata.csv"), "--output-dir=" + out, carPath})
	if err != nil {
		return 0, fmt.Errorf("split-car failed on a well-formed CAR: %v", err)
	}
	md, err := splitcarfetcher.MetadataFromYaml(filepath.Join(dir, fmt.Sprintf("epoch-%d-metadata.yaml", ep.Num)))
	if err != nil {
		return 0, fmt.Errorf("metadata yaml: %v", err)
	}
	cp := md.CarPieces
	if cp == nil || len(cp.CarPieces) == 0 {
		return 0, fmt.Errorf("metadata lists no pieces")
	}
	pieces = len(cp.CarPieces)
	// original header
	hb, err := base64.StdEncoding.DecodeString(cp.OriginalCarHeader)
	if err != nil {
		return pieces, fmt.Errorf("OriginalCarHeader: %v", err)
	}
	var pre []byte
	pre = binary.AppendUvarint(pre, uint64(len(hb)))
	origHeader := append(pre, hb...)
	if !bytes.Equal(origHeader, ep.Car[:ep.HeaderLen]) || cp.OriginalCarHeaderSize != ep.HeaderLen {
		return pieces, fmt.Errorf("recorded original header (%d bytes, size field %d) differs from the CAR's header (%d bytes)", len(origHeader), cp.OriginalCarHeaderSize, ep.HeaderLen)
	}
	// expected data region: all sections except Subset/Epoch nodes, original order
	var want []byte
	boundaries := map[int]int{} // data-region offset after each block -> block index
	blockEnd := make([]int, len(ep.Blocks))
	for i := range ep.Objects {
		o := &ep.Objects[i]
		if o.Kind == cargen.KindSubset || o.Kind == cargen.KindEpoch {
			continue
		}
		want = append(want, ep.Car[o.Offset:o.Offset+o.SectionLen]...)
		if o.Kind == cargen.KindBlock {
			boundaries[len(want)] = o.BlockIdx
			blockEnd[o.BlockIdx] = len(want)
		}
	}
	var got []byte
	nextBlock := 0
	var subsetCids []cid.Cid
	for pi, p := range cp.CarPieces {
		raw, err := os.ReadFile(p.Name)
		if err != nil {
			return pieces, fmt.Errorf("piece %d: %v", pi, err)
		}
		hl, n := binary.Uvarint(raw)
		if n <= 0 {
			return pieces, fmt.Errorf("piece %d: no CAR header", pi)
		}
		if uint64(n)+hl != p.HeaderSize {
			return pieces, fmt.Errorf("piece %d: metadata HeaderSize %d, the file's header is %d bytes", pi, p.HeaderSize, uint64(n)+hl)
		}
		if p.HeaderSize+p.ContentSize > uint64(len(raw)) {
			return pieces, fmt.Errorf("piece %d: metadata says header %d + content %d, the file has only %d bytes", pi, p.HeaderSize, p.ContentSize, len(raw))
		}
		content := raw[p.HeaderSize : p.HeaderSize+p.ContentSize]
		start := len(got)
		got = append(got, content...)
		if pi > 0 {
			if _, ok := boundaries[start]; !ok {
				return pieces, fmt.Errorf("piece %d starts in the middle of a block's objects (data offset %d)", pi, start)
			}
		}
		if _, ok := boundaries[len(got)]; !ok {
			return pieces, fmt.Errorf("piece %d ends in the middle of a block's objects (data offset %d)", pi, len(got))
		}
		// blocks contained in this piece, in order
		var blkCids []cid.Cid
		first, last := -1, -1
		for nextBlock < len(ep.Blocks) && blockEnd[nextBlock] <= len(got) {
			b := ep.Blocks[nextBlock]
			blkCids = append(blkCids, b.Cid)
			if first < 0 {
				first = int(b.Slot)
			}
			last = int(b.Slot)
			nextBlock++
		}
		// trailing bytes = this piece's Subset node (+ Epoch node in the last piece)
		rest := raw[p.HeaderSize+p.ContentSize:]
		l, n := binary.Uvarint(rest)
		if n <= 0 || uint64(n)+l > uint64(len(rest)) {
			return pieces, fmt.Errorf("piece %d: %d bytes follow the counted content and do not parse as a CAR section", pi, len(rest))
		}
		sec := rest[n : uint64(n)+l]
		cl, sc, err := cid.CidFromBytes(sec)
		if err != nil {
			return pieces, fmt.Errorf("piece %d: trailing section: %v", pi, err)
		}
		sub, err := iplddecoders.DecodeSubset(sec[cl:])
		if err != nil {
			return pieces, fmt.Errorf("piece %d: trailing section is not a Subset node: %v", pi, err)
		}
		if len(sub.Blocks) != len(blkCids) {
			return pieces, fmt.Errorf("piece %d: its Subset node links %d blocks, the piece contains %d", pi, len(sub.Blocks), len(blkCids))
		}
		for i := range blkCids {
			if !sub.Blocks[i].(cidlink.Link).Cid.Equals(blkCids[i]) {
				return pieces, fmt.Errorf("piece %d: Subset link %d is not the piece's block %d", pi, i, i)
			}
		}
		if len(blkCids) > 0 && (sub.First != first || sub.Last != last) {
			return pieces, fmt.Errorf("piece %d: Subset first/last %d/%d, blocks span %d/%d", pi, sub.First, sub.Last, first, last)
		}
		subsetCids = append(subsetCids, sc)
		// the piece's root must be its subset
		ph, err := readHeaderRoots(raw)
		if err == nil && (len(ph) != 1 || !ph[0].Equals(sc)) {
			return pieces, fmt.Errorf("piece %d: root %v is not its Subset node %s", pi, ph, sc)
		}
		after := rest[uint64(n)+l:]
		if pi == len(cp.CarPieces)-1 {
			l2, n2 := binary.Uvarint(after)
			if n2 <= 0 || uint64(n2)+l2 != uint64(len(after)) {
				return pieces, fmt.Errorf("last piece: expected exactly one Epoch section after the Subset node, %d bytes follow", len(after))
			}
			sec2 := after[n2:]
			cl2, _, err := cid.CidFromBytes(sec2)
			if err != nil {
				return pieces, err
			}
			en, err := iplddecoders.DecodeEpoch(sec2[cl2:])
			if err != nil {
				return pieces, fmt.Errorf("last piece: trailing Epoch node: %v", err)
			}
			if en.Epoch != int(ep.Num) || len(en.Subsets) != len(subsetCids) {
				return pieces, fmt.Errorf("Epoch node: epoch %d with %d subsets, expected epoch %d with %d", en.Epoch, len(en.Subsets), ep.Num, len(subsetCids))
			}
			for i := range subsetCids {
				if !en.Subsets[i].(cidlink.Link).Cid.Equals(subsetCids[i]) {
					return pieces, fmt.Errorf("Epoch node subset link %d differs", i)
				}
			}
		} else if len(after) != 0 {
			return pieces, fmt.Errorf("piece %d: %d unexpected bytes after its Subset node", pi, len(after))
		}
	}
	if !bytes.Equal(got, want) {
		return pieces, fmt.Errorf("concatenated piece contents (%d bytes) differ from the original data region (%d bytes)", len(got), len(want))
	}
	if nextBlock != len(ep.Blocks) {
		return pieces, fmt.Errorf("%d of %d blocks are in no piece", len(ep.Blocks)-nextBlock, len(ep.Blocks))
	}
	// read back through the split reader
	scr, err := splitcarfetcher.NewSplitCarReader(cp, func(cf carlet.CarFile) (splitcarfetcher.ReaderAtCloserSize, error) {
		f, err := os.Open(cf.Name)
		if err != nil {
			return nil, err
		}
		st, _ := f.Stat()
		return &vfFilePiece{f: f, size: st.Size()}, nil
	})
	if err != nil {
		return pieces, fmt.Errorf("NewSplitCarReader over the written pieces: %v", err)
	}
	defer scr.Close()
	model := append(append([]byte{}, origHeader...), want...)
	buf := make([]byte, len(model)+10)
	n, err := scr.ReadAt(buf, 0)
	if n != len(model) || !bytes.Equal(buf[:n], model) || err != io.EOF {
		return pieces, fmt.Errorf("reading the split CAR back: n=%d err=%v, expected the %d bytes of header+data and io.EOF", n, err, len(model))
	}
	return pieces, nil
}

func readHeaderRoots(raw []byte) ([]cid.Cid, error) {
	rd := bytes.NewReader(raw)
	l, err := binary.ReadUvarint(rd)
	if err != nil {
		return nil, err
	}
	hb := make([]byte, l)
	if _, err := io.ReadFull(rd, hb); err != nil {
		return nil, err
	}
	// dag-cbor {roots:[...], version:1}: find tag-42 byte strings
	var out []cid.Cid
	for i := 0; i+3 < len(hb); i++ {
		if hb[i] == 0xd8 && hb[i+1] == 0x2a && hb[i+2] == 0x58 {
			ln := int(hb[i+3])
			if i+4+ln <= len(hb) && ln > 1 {
				_, c, err := cid.CidFromBytes(hb[i+5 : i+4+ln])
				if err == nil {
					out = append(out, c)
				}
			}
		}
	}
	return out, nil
}

func TestVfC16Split(t *testing.T) {
	run := vfh.Begin("C16", "split-car")
	defer run.End(t)
	run.Require("mode:one-piece", "mode:block-per-piece", "mode:between", "pieces>=2")
	opts := cargen.DefaultOpts()
	opts.MinBlocks = 1
	rapid.Check(t, func(rt *rapid.T) {
		c := &vfC16SplitCase{Spec: cargen.Gen(rt, opts)}
		c.Mode = rapid.SampledFrom([]string{"one-piece", "block-per-piece", "between", "between"}).Draw(rt, "mode")
		switch c.Mode {
		case "one-piece":
			c.Target = 1 << 40
		case "block-per-piece":
			c.Target = rapid.Int64Range(1, 100).Draw(rt, "tinyTarget")
		default:
			c.Target = rapid.OneOf(rapid.Int64Range(200, 5000), rapid.Int64Range(5000, 400000)).Draw(rt, "target")
		}
		run.SetLast(c)
		var pieces int
		err, panicked := vfh.Catch(func() error {
			var e error
			pieces, e = vfC16splitEval(c)
			return e
		})
		cls := []string{"mode:" + c.Mode}
		if pieces >= 2 {
			cls = append(cls, "pieces>=2")
		}
		run.Case(c, pieces >= 2, map[string]any{"mode": c.Mode, "target": c.Target, "pieces": pieces, "blocks": len(c.Spec.Blocks)}, cls...)
		if err != nil {
			if panicked {
				rt.Fatalf("C16 violated: split-car panicked: %v", err)
			}
			rt.Fatalf("C16 violated: %v", err)
		}
	})
}

func TestVfReplayC16Split(t *testing.T) {
	var c vfC16SplitCase
	if !vfh.LoadReplay(t, &c) {
		t.Skip("no VERIF_REPLAY")
	}
	if _, err := vfC16splitEval(&c); err != nil {
		t.Fatalf("C16 violated: %v", err)
	}
}
