package splitcarfetcher

// C16 (reader side): MultiReaderAt / SplitCarReader return exactly the bytes of
// the concatenation (original header + each piece's content), for every piece
// size vector, offset and length; EOF only at the true end.

import (
	"bytes"
	"encoding/base64"
	"encoding/binary"
	"fmt"
	"io"
	"os"
	"path/filepath"
	"testing"

	"github.com/anjor/carlet"
	"github.com/rpcpool/yellowstone-faithful/zz_verif/vfh"
	"pgregory.net/rapid"
)

// vfCheckRead judges one ReadAt against the model byte string.
func vfCheckRead(r io.ReaderAt, model []byte, off, ln int) error {
	buf := bytes.Repeat([]byte{0xEE}, ln)
	n, err := r.ReadAt(buf, int64(off))
	total := len(model)
	wantN := 0
	if off < total {
		wantN = total - off
		if wantN > ln {
			wantN = ln
		}
	}
	if n != wantN {
		return fmt.Errorf("ReadAt(len %d, off %d) over %d bytes: n=%d, want %d (err=%v)", ln, off, total, n, wantN, err)
	}
	if !bytes.Equal(buf[:n], model[min64(off, total):min64(off, total)+n]) {
		return fmt.Errorf("ReadAt(len %d, off %d): returned bytes differ from the concatenation", ln, off)
	}
	for i := n; i < ln; i++ {
		if buf[i] != 0xEE {
			return fmt.Errorf("ReadAt(len %d, off %d): wrote beyond n=%d", ln, off, n)
		}
	}
	switch {
	case ln == 0: // an empty read returns n == len(p): nil and io.EOF are both within the io.ReaderAt contract
		if err != nil && err != io.EOF {
			return fmt.Errorf("ReadAt(len 0, off %d): unexpected error %v", off, err)
		}
	case off+ln > total: // reaches past the true end
		if err != io.EOF {
			return fmt.Errorf("ReadAt(len %d, off %d) over %d bytes reaches past the end: err=%v, want io.EOF", ln, off, total, err)
		}
	case off+ln == total: // ends exactly at the end: nil or io.EOF are both allowed by io.ReaderAt
		if err != nil && err != io.EOF {
			return fmt.Errorf("ReadAt(len %d, off %d): unexpected error %v", ln, off, err)
		}
	default:
		if err != nil {
			return fmt.Errorf("ReadAt(len %d, off %d) over %d bytes lies inside the data but reports %v", ln, off, total, err)
		}
	}
	return nil
}

func min64(a, b int) int {
	if a < b {
		return a
	}
	return b
}

func vfPieceBytes(idx, n int) []byte {
	b := make([]byte, n)
	for i := range b {
		b[i] = byte(0x10*(idx+1) + i)
	}
	return b
}

// vfMulti builds a MultiReaderAt over the pieces. mode 0: bytes.Reader per piece;
// mode 1: SectionReader into a larger buffer with garbage before and after (the
// way NewSplitCarReader wires pieces).
func vfMulti(sizes []int, mode int) (*MultiReaderAt, []byte) {
	var model []byte
	var readers []io.ReaderAt
	var szs []int64
	for i, s := range sizes {
		p := vfPieceBytes(i, s)
		model = append(model, p...)
		if mode == 0 {
			readers = append(readers, bytes.NewReader(p))
		} else {
			big := append(append([]byte{0xAA, 0xBB, 0xCC}, p...), 0xDD, 0xDD, 0xDD, 0xDD)
			readers = append(readers, io.NewSectionReader(bytes.NewReader(big), 3, int64(s)))
		}
		szs = append(szs, int64(s))
	}
	return NewMultiReaderAt(readers, szs), model
}

// TestVfC16Exhaustive: all vectors of <= 4 pieces of 0..6 bytes x every (offset, length).
func TestVfC16Exhaustive(t *testing.T) {
	run := vfh.Begin("C16", "multireader-exhaustive")
	defer run.End(t)
	maxPieces := vfh.EnvInt("VERIF_C16_PIECES", 4)
	maxSize := 6
	shard, shards := vfh.Shard()
	idx := 0
	vectors := 0
	samples := 0
	var rec func(sizes []int)
	rec = func(sizes []int) {
		if len(sizes) > 0 {
			idx++
			if idx%shards == shard {
				vectors++
				for mode := 0; mode < 2; mode++ {
					m, model := vfMulti(sizes, mode)
					total := len(model)
					hasZero := false
					for _, s := range sizes {
						if s == 0 {
							hasZero = true
						}
					}
					for off := 0; off <= total+2; off++ {
						for ln := 0; ln <= total+2; ln++ {
							c := &vfC16Case{Sizes: sizes, Mode: "multi", Reads: [][2]int{{off, ln}}}
							run.SetLast(c)
							// spans >= 2 pieces or touches a zero-length piece
							nt := hasZero
							acc := 0
							first, last := -1, -1
							for i, s := range sizes {
								if off < acc+s && off+ln > acc && s > 0 {
									if first < 0 {
										first = i
									}
									last = i
								}
								acc += s
							}
							if first >= 0 && last > first {
								nt = true
							}
							var smp any
							if nt && samples < 3 && ln > 2 {
								smp = c
								samples++
							}
							run.Case(fmt.Sprint(sizes, mode, off, ln), nt, smp)
							if err := vfCheckRead(m, model, off, ln); err != nil {
								t.Fatalf("C16 violated: pieces %v (mode %d): %v", sizes, mode, err)
							}
						}
					}
				}
			}
		}
		if len(sizes) == maxPieces {
			return
		}
		for s := 0; s <= maxSize; s++ {
			rec(append(append([]int{}, sizes...), s))
		}
	}
	rec(nil)
	run.Note("piece_vectors", vectors)
	run.Note("exhaustive_scope", fmt.Sprintf("<=%d pieces of 0..%d bytes, every offset<=total+2 and length<=total+2, two reader wirings", maxPieces, maxSize))
}

type vfC16Case struct {
	Sizes  []int
	Header int // original header payload length (SplitCarReader only)
	Pad    []int
	Trail  []int
	Reads  [][2]int
	Mode   string // "multi", "split-mem", "split-file"
}

type vfMemPiece struct {
	b []byte
}

func (m *vfMemPiece) ReadAt(p []byte, off int64) (int, error) {
	return bytes.NewReader(m.b).ReadAt(p, off)
}
func (m *vfMemPiece) Close() error { return nil }
func (m *vfMemPiece) Size() int64  { return int64(len(m.b)) }

func vfC16eval(c *vfC16Case) error {
	if c.Mode == "multi" {
		for mode := 0; mode < 2; mode++ {
			m, model := vfMulti(c.Sizes, mode)
			for _, rd := range c.Reads {
				if err := vfCheckRead(m, model, rd[0], rd[1]); err != nil {
					return fmt.Errorf("pieces %v (mode %d): %v", c.Sizes, mode, err)
				}
			}
		}
		return nil
	}
	// SplitCarReader: original header + content region of every piece
	hdr := vfPieceBytes(77, c.Header)
	var prefix []byte
	prefix = binary.AppendUvarint(prefix, uint64(len(hdr)))
	model := append(append([]byte{}, prefix...), hdr...)
	meta := &carlet.CarPiecesAndMetadata{OriginalCarHeader: base64.StdEncoding.EncodeToString(hdr), OriginalCarHeaderSize: uint64(len(prefix) + len(hdr))}
	files := map[string][]byte{}
	dir := ""
	if c.Mode == "split-file" {
		dir = vfh.TmpDir("c16")
		defer os.RemoveAll(dir)
	}
	for i, s := range c.Sizes {
		content := vfPieceBytes(i, s)
		model = append(model, content...)
		pad := c.Pad[i]
		trail := c.Trail[i]
		if c.Mode == "split-file" {
			trail = 0 // local piece files must be exactly header+content
		}
		raw := append(append(bytes.Repeat([]byte{0xA0 + byte(i)}, pad), content...), bytes.Repeat([]byte{0xF0}, trail)...)
		name := fmt.Sprintf("piece-%d", i)
		files[name] = raw
		if dir != "" {
			if err := os.WriteFile(filepath.Join(dir, name), raw, 0o644); err != nil {
				return err
			}
		}
		meta.CarPieces = append(meta.CarPieces, carlet.CarFile{Name: name, HeaderSize: uint64(pad), ContentSize: uint64(s)})
	}
	scr, err := NewSplitCarReader(meta, func(cf carlet.CarFile) (ReaderAtCloserSize, error) {
		if dir != "" {
			return NewFileSplitCarReader(filepath.Join(dir, cf.Name))
		}
		return &vfMemPiece{b: files[cf.Name]}, nil
	})
	if err != nil {
		return fmt.Errorf("NewSplitCarReader over consistent pieces failed: %v", err)
	}
	defer scr.Close()
	for _, rd := range c.Reads {
		if err := vfCheckRead(scr, model, rd[0], rd[1]); err != nil {
			return fmt.Errorf("split reader, header %d, pieces %v: %v", len(prefix)+len(hdr), c.Sizes, err)
		}
	}
	return nil
}

func TestVfC16Random(t *testing.T) {
	run := vfh.Begin("C16", "readers-random")
	defer run.End(t)
	run.Require("mode:multi", "mode:split-mem", "mode:split-file")
	rapid.Check(t, func(rt *rapid.T) {
		c := &vfC16Case{}
		c.Mode = rapid.SampledFrom([]string{"multi", "split-mem", "split-file"}).Draw(rt, "mode")
		np := rapid.OneOf(rapid.IntRange(1, 6), rapid.IntRange(1, 64)).Draw(rt, "pieces")
		total := 0
		for i := 0; i < np; i++ {
			s := rapid.OneOf(rapid.IntRange(0, 8), rapid.IntRange(0, 4096), rapid.SampledFrom([]int{0, 1, 4095, 4096})).Draw(rt, "size")
			c.Sizes = append(c.Sizes, s)
			c.Pad = append(c.Pad, rapid.SampledFrom([]int{0, 1, 59, 60}).Draw(rt, "pad"))
			c.Trail = append(c.Trail, rapid.SampledFrom([]int{0, 0, 1, 700}).Draw(rt, "trail"))
			total += s
		}
		c.Header = rapid.SampledFrom([]int{1, 57, 58, 127, 128, 300}).Draw(rt, "header")
		full := total
		if c.Mode != "multi" {
			full += c.Header + 2
		}
		nr := rapid.IntRange(1, 40).Draw(rt, "reads")
		for i := 0; i < nr; i++ {
			off := rapid.IntRange(0, full+3).Draw(rt, "off")
			ln := rapid.OneOf(rapid.IntRange(0, 16), rapid.IntRange(0, full+3)).Draw(rt, "len")
			c.Reads = append(c.Reads, [2]int{off, ln})
		}
		run.SetLast(c)
		zero := false
		for _, s := range c.Sizes {
			if s == 0 {
				zero = true
			}
		}
		run.Case(c, len(c.Sizes) >= 2 || zero, map[string]any{"mode": c.Mode, "sizes": c.Sizes, "reads": len(c.Reads)}, "mode:"+c.Mode)
		if err, _ := vfh.Catch(func() error { return vfC16eval(c) }); err != nil {
			rt.Fatalf("C16 violated: %v", err)
		}
	})
}

func TestVfReplayC16(t *testing.T) {
	var c vfC16Case
	if !vfh.LoadReplay(t, &c) {
		t.Skip("no VERIF_REPLAY")
	}
	if err, _ := vfh.Catch(func() error { return vfC16eval(&c) }); err != nil {
		t.Fatalf("C16 violated: %v", err)
	}
}
