package splitcarfetcher

// C17 end-to-end: HTTPSingleFileRemoteReaderAt.ReadAt against a loopback server
// that honours Range and fails on command.

import (
	"bytes"
	"context"
	"fmt"
	"io"
	"net/http"
	"net/http/httptest"
	"sync/atomic"
	"testing"
	"time"

	"github.com/rpcpool/yellowstone-faithful/zz_verif/vfh"
	"pgregory.net/rapid"
)

type vfC17Read struct {
	Off, Len int
	Fail     string // "", "500", "500-longbody", "ignore-range"
}

type vfC17HTTPCase struct {
	Size  int
	Reads []vfC17Read
}

func vfRemoteBytes(n int) []byte {
	b := make([]byte, n)
	for i := range b {
		b[i] = byte(i*13 + 5)
	}
	return b
}

func vfC17httpEval(c *vfC17HTTPCase) error {
	file := vfRemoteBytes(c.Size)
	var mode atomic.Value
	mode.Store("")
	var failed atomic.Int64
	srv := httptest.NewServer(http.HandlerFunc(func(w http.ResponseWriter, r *http.Request) {
		m := mode.Load().(string)
		if r.Method == "GET" && r.Header.Get("Range") != "" {
			switch m {
			case "500":
				failed.Add(1)
				http.Error(w, "boom", http.StatusInternalServerError)
				return
			case "500-longbody":
				failed.Add(1)
				w.WriteHeader(http.StatusInternalServerError)
				w.Write(bytes.Repeat([]byte("E"), c.Size+64))
				return
			case "ignore-range":
				// a server that does not honour Range answers 200 with the whole file
				failed.Add(1)
				w.WriteHeader(http.StatusOK)
				w.Write(file)
				return
			}
		}
		http.ServeContent(w, r, "file.bin", time.Unix(1600000000, 0), bytes.NewReader(file))
	}))
	defer srv.Close()
	ctx, cancel := context.WithCancel(context.Background())
	defer cancel()
	rd, size, err := NewRemoteHTTPFileAsIoReaderAt(ctx, srv.URL+"/file.bin")
	if err != nil {
		return fmt.Errorf("opening the remote file failed: %v", err)
	}
	defer rd.Close()
	if size != int64(c.Size) || rd.Size() != int64(c.Size) {
		return fmt.Errorf("remote size %d reported as %d/%d", c.Size, size, rd.Size())
	}
	for i, r := range c.Reads {
		mode.Store(r.Fail)
		f0 := failed.Load()
		buf := bytes.Repeat([]byte{0xEE}, r.Len)
		n, err := rd.ReadAt(buf, int64(r.Off))
		mode.Store("")
		inside := r.Off+r.Len <= c.Size
		if !inside {
			// reaching past the end: refused (error / EOF), never padded
			if err == nil {
				return fmt.Errorf("read %d: ReadAt(len %d, off %d) past the end of a %d-byte file returned n=%d without error", i, r.Len, r.Off, c.Size, n)
			}
			if n > 0 && !bytes.Equal(buf[:n], file[r.Off:r.Off+n]) {
				return fmt.Errorf("read %d: partial read past the end returned wrong bytes", i)
			}
			continue
		}
		if err != nil {
			if failed.Load() == f0 {
				return fmt.Errorf("read %d: ReadAt(len %d, off %d) failed (%v) although the remote answered correctly", i, r.Len, r.Off, err)
			}
		} else {
			if n != r.Len || !bytes.Equal(buf, file[r.Off:r.Off+r.Len]) {
				return fmt.Errorf("read %d: ReadAt(len %d, off %d) [remote mode %q] returned n=%d bytes %x..., the remote holds %x...", i, r.Len, r.Off, r.Fail, n, buf[:min64(len(buf), 8)], file[r.Off:r.Off+min64(r.Len, 8)])
			}
		}
		// with a healthy remote the same read must give the true bytes (nothing bad was cached)
		buf2 := bytes.Repeat([]byte{0xEE}, r.Len)
		n2, err2 := rd.ReadAt(buf2, int64(r.Off))
		if err2 != nil && !(r.Len == 0 && err2 == io.EOF) {
			return fmt.Errorf("read %d: repeated ReadAt(len %d, off %d) with a healthy remote failed: %v", i, r.Len, r.Off, err2)
		}
		if err2 == nil && (n2 != r.Len || !bytes.Equal(buf2, file[r.Off:r.Off+r.Len])) {
			return fmt.Errorf("read %d: repeated ReadAt(len %d, off %d) with a healthy remote returns bytes that are not the remote's (a failed fetch [%q] was cached)", i, r.Len, r.Off, r.Fail)
		}
	}
	return nil
}

func TestVfC17HTTP(t *testing.T) {
	run := vfh.Begin("C17", "http")
	defer run.End(t)
	run.Require("fail:500", "fail:500-longbody", "fail:ignore-range", "past-end")
	for _, p := range vfh.ReplayFiles("C17", "http") {
		var c vfC17HTTPCase
		if err := vfh.LoadCaseFile(p, &c); err != nil {
			t.Fatalf("regress %s: %v", p, err)
		}
		run.SetLast(&c)
		if err, _ := vfh.Catch(func() error { return vfC17httpEval(&c) }); err != nil {
			t.Fatalf("regression case %s: C17 violated: %v", p, err)
		}
		run.Class("regress-replayed")
	}
	rapid.Check(t, func(rt *rapid.T) {
		c := &vfC17HTTPCase{Size: rapid.IntRange(16, 2048).Draw(rt, "size")}
		n := rapid.IntRange(1, 12).Draw(rt, "n")
		cls := map[string]bool{}
		for i := 0; i < n; i++ {
			var r vfC17Read
			r.Off = rapid.IntRange(0, c.Size-1).Draw(rt, "off")
			r.Len = rapid.IntRange(1, c.Size-r.Off+rapid.SampledFrom([]int{0, 0, 0, 1, 5}).Draw(rt, "over")).Draw(rt, "len")
			r.Fail = rapid.SampledFrom([]string{"", "", "", "500", "500-longbody", "ignore-range"}).Draw(rt, "fail")
			if r.Off+r.Len > c.Size {
				cls["past-end"] = true
			}
			if r.Fail != "" {
				cls["fail:"+r.Fail] = true
			}
			c.Reads = append(c.Reads, r)
		}
		run.SetLast(c)
		var cl []string
		for k := range cls {
			cl = append(cl, k)
		}
		run.Case(c, len(cl) > 0, c, cl...)
		if err, _ := vfh.Catch(func() error { return vfC17httpEval(c) }); err != nil {
			rt.Fatalf("C17 violated: %v", err)
		}
	})
}

func TestVfReplayC17HTTP(t *testing.T) {
	var c vfC17HTTPCase
	if !vfh.LoadReplay(t, &c) {
		t.Skip("no VERIF_REPLAY")
	}
	if err, _ := vfh.Catch(func() error { return vfC17httpEval(&c) }); err != nil {
		t.Fatalf("C17 violated: %v", err)
	}
}
