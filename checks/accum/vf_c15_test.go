package accum

// C15: block-by-block CAR traversal delivers each block once, in file order,
// with exactly the non-ignored objects since the previous block and their true
// offsets/lengths; trailing objects form a final group.

import (
	"bytes"
	"context"
	"fmt"
	"os"
	"path/filepath"
	"runtime"
	"sync"
	"testing"
	"time"

	"github.com/rpcpool/yellowstone-faithful/carreader"
	"github.com/rpcpool/yellowstone-faithful/iplddecoders"
	"github.com/rpcpool/yellowstone-faithful/zz_verif/cargen"
	"github.com/rpcpool/yellowstone-faithful/zz_verif/vfh"
	"pgregory.net/rapid"
)

type vfC15Case struct {
	Spec     *cargen.EpochSpec
	Ignore   []int // kinds to ignore
	FlushOn  int   // kind that closes a group (Block in both real callers)
	Delays   []int // per group: 0 none, 1 Gosched, 2 sleep 50us, 3 sleep 500us
	Procs    int   // GOMAXPROCS during the run
	ReadSlow bool  // slow reader (small chunks)
	Stall    int   // the consumer sleeps this many ms in group StallAt (lets > 1000 groups queue up behind it)
	StallAt  int
}

type vfGroup struct {
	parent   *ObjectWithMetadata
	children []ObjectWithMetadata
}

type slowReader struct {
	r *bytes.Reader
	n int
}

func (s *slowReader) Read(p []byte) (int, error) {
	if len(p) > s.n {
		p = p[:s.n]
	}
	return s.r.Read(p)
}
func (s *slowReader) Close() error { return nil }

func vfC15eval(c *vfC15Case, st map[string]int) error {
	ep, err := cargen.Build(c.Spec)
	if err != nil {
		return fmt.Errorf("harness: %v", err)
	}
	if c.Procs > 0 {
		defer runtime.GOMAXPROCS(runtime.GOMAXPROCS(c.Procs))
	}
	var rc interface {
		Read([]byte) (int, error)
		Close() error
	}
	if c.ReadSlow {
		rc = &slowReader{r: bytes.NewReader(ep.Car), n: 97}
	} else {
		dir := vfh.TmpDir("c15")
		defer os.RemoveAll(dir)
		p := filepath.Join(dir, "in.car")
		if err := ep.WriteFile(p); err != nil {
			return err
		}
		f, err := os.Open(p)
		if err != nil {
			return err
		}
		defer f.Close()
		rc = f
	}
	rd, err := carreader.New(rc)
	if err != nil {
		return fmt.Errorf("carreader.New on a well-formed CAR: %v", err)
	}
	ignore := map[int]bool{}
	var ignoreKinds []iplddecoders.Kind
	for _, k := range c.Ignore {
		if k == c.FlushOn || ignore[k] {
			continue
		}
		ignore[k] = true
		ignoreKinds = append(ignoreKinds, iplddecoders.Kind(k))
	}
	var mu sync.Mutex
	var groups []vfGroup
	inCallback := 0
	overlap := false
	var cbErr error
	acc := NewObjectAccumulator(rd, iplddecoders.Kind(c.FlushOn), func(parent *ObjectWithMetadata, children []ObjectWithMetadata) error {
		mu.Lock()
		inCallback++
		if inCallback > 1 {
			overlap = true
		}
		gi := len(groups)
		mu.Unlock()
		// the callback may keep what it was given until it returns: copy now, compare after the delay
		g := vfGroup{}
		if parent != nil {
			pc := *parent
			pc.ObjectData = append([]byte{}, parent.ObjectData...)
			g.parent = &pc
		}
		for _, ch := range children {
			cc := ch
			cc.ObjectData = append([]byte{}, ch.ObjectData...)
			g.children = append(g.children, cc)
		}
		if c.Stall > 0 && gi == c.StallAt {
			time.Sleep(time.Duration(c.Stall) * time.Millisecond)
		}
		if len(c.Delays) > 0 {
			switch c.Delays[gi%len(c.Delays)] {
			case 1:
				runtime.Gosched()
			case 2:
				time.Sleep(50 * time.Microsecond)
			case 3:
				time.Sleep(500 * time.Microsecond)
			}
		}
		// what was handed to the callback must still be intact when it returns (no buffer reuse underneath it)
		for i, ch := range children {
			if !bytes.Equal(ch.ObjectData, g.children[i].ObjectData) || ch.Offset != g.children[i].Offset || !ch.Cid.Equals(g.children[i].Cid) {
				mu.Lock()
				cbErr = fmt.Errorf("group %d: child %d changed while the callback was running", gi, i)
				mu.Unlock()
			}
		}
		mu.Lock()
		groups = append(groups, g)
		inCallback--
		mu.Unlock()
		return nil
	}, ignoreKinds...)
	done := make(chan error, 1)
	go func() {
		defer func() {
			if r := recover(); r != nil {
				done <- fmt.Errorf("panic: %v", r)
			}
		}()
		done <- acc.Run(context.Background())
	}()
	select {
	case err := <-done:
		if err != nil {
			return fmt.Errorf("Run on a well-formed CAR failed: %v", err)
		}
	case <-time.After(120 * time.Second):
		return fmt.Errorf("Run did not return within 120s")
	}
	// Run returns only after every callback ended
	mu.Lock()
	defer mu.Unlock()
	if inCallback != 0 {
		return fmt.Errorf("Run returned while %d callback(s) were still running", inCallback)
	}
	if overlap {
		return fmt.Errorf("two callbacks ran at the same time")
	}
	if cbErr != nil {
		return cbErr
	}
	// expected grouping from the generator's object table
	type exp struct {
		parent   int // object index, -1 for the trailing group
		children []int
	}
	var want []exp
	cur := []int{}
	for i := range ep.Objects {
		o := &ep.Objects[i]
		if o.Kind == c.FlushOn {
			want = append(want, exp{parent: i, children: cur})
			cur = []int{}
			continue
		}
		if ignore[o.Kind] {
			continue
		}
		cur = append(cur, i)
	}
	trailing := cur
	if len(trailing) > 0 {
		want = append(want, exp{parent: -1, children: trailing})
		st["trailing-group"]++
	}
	// a final empty group (parent nil, no children) is not delivered
	got := groups
	if len(got) != len(want) {
		return fmt.Errorf("%d groups delivered, expected %d (%d flush objects, %d trailing objects)", len(got), len(want), len(want)-btoi(len(trailing) > 0), len(trailing))
	}
	check := func(what string, g ObjectWithMetadata, idx int) error {
		o := &ep.Objects[idx]
		if !g.Cid.Equals(o.Cid) {
			return fmt.Errorf("%s: delivered object %s, expected object #%d %s", what, g.Cid, idx, o.Cid)
		}
		if g.Offset != o.Offset || g.SectionLength != o.SectionLen {
			return fmt.Errorf("%s (object #%d, kind %d): delivered offset=%d length=%d, it sits at offset=%d length=%d", what, idx, o.Kind, g.Offset, g.SectionLength, o.Offset, o.SectionLen)
		}
		if !bytes.Equal(g.ObjectData, o.Data) {
			return fmt.Errorf("%s (object #%d): delivered bytes differ from the object", what, idx)
		}
		return nil
	}
	for gi, w := range want {
		g := got[gi]
		if (w.parent < 0) != (g.parent == nil) {
			return fmt.Errorf("group %d: parent presence differs (expected parent object %d)", gi, w.parent)
		}
		if w.parent >= 0 {
			if err := check(fmt.Sprintf("group %d parent", gi), *g.parent, w.parent); err != nil {
				return err
			}
		}
		if len(g.children) != len(w.children) {
			return fmt.Errorf("group %d (parent object %d): %d children delivered, expected %d", gi, w.parent, len(g.children), len(w.children))
		}
		for ci, idx := range w.children {
			if err := check(fmt.Sprintf("group %d child %d", gi, ci), g.children[ci], idx); err != nil {
				return err
			}
		}
		if len(w.children) > 5000 {
			st["children>5000"]++
		}
	}
	st["groups"] += len(want)
	return nil
}

func btoi(b bool) int {
	if b {
		return 1
	}
	return 0
}

func TestVfC15(t *testing.T) {
	run := vfh.Begin("C15", "traversal")
	defer run.End(t)
	run.Require("ignore:none", "ignore:some", "delayed", "procs:1", "trailing-group", "children>5000", "groups>1000-behind-stalled-consumer")
	opts := cargen.DefaultOpts()
	rapid.Check(t, func(rt *rapid.T) {
		c := &vfC15Case{Spec: cargen.Gen(rt, opts)}
		c.FlushOn = 2 // both real callers (address indexer, CAR splitter) group by Block
		switch rapid.SampledFrom([]string{"none", "gsfa", "split", "random"}).Draw(rt, "ignoreSet") {
		case "gsfa":
			c.Ignore = []int{1, 5}
		case "split":
			c.Ignore = []int{4, 3}
		case "random":
			c.Ignore = rapid.SliceOfNDistinct(rapid.IntRange(0, 6), 1, 4, rapid.ID[int]).Draw(rt, "ignore")
		}
		c.Delays = rapid.SliceOfN(rapid.IntRange(0, 3), 0, 8).Draw(rt, "delays")
		c.Procs = rapid.SampledFrom([]int{0, 1, 2, 16}).Draw(rt, "procs")
		c.ReadSlow = rapid.IntRange(0, 3).Draw(rt, "slowReader") == 0
		if rapid.IntRange(0, vfh.Pick(24, 40)).Draw(rt, "bulk") == 0 {
			// blocks with more children than the accumulator's initial per-group capacity (5000), followed by
			// further groups, and a consumer that is slower than the reader
			c.Spec.BulkBlocks, c.Spec.BulkTxPerBlock = rapid.IntRange(2, 3).Draw(rt, "bulkBlocks"), rapid.SampledFrom([]int{5000, 5001, 5200}).Draw(rt, "bulkTx")
			if rapid.Bool().Draw(rt, "bulkSlowConsumer") {
				c.Delays = []int{3, 3, 2}
			}
		}
		if rapid.IntRange(0, vfh.Pick(24, 40)).Draw(rt, "manyGroups") == 0 {
			// more groups than the accumulator's flush queue holds (1000) behind a consumer that stalls once
			c.Spec.BulkBlocks, c.Spec.BulkTxPerBlock = rapid.SampledFrom([]int{1001, 1003, 1100, 1500, 2500}).Draw(rt, "manyBlocks"), rapid.IntRange(0, 1).Draw(rt, "manyTx")
			c.Stall, c.StallAt = rapid.SampledFrom([]int{60, 150}).Draw(rt, "stall"), rapid.SampledFrom([]int{0, 1, 7}).Draw(rt, "stallAt")
			c.ReadSlow = false
			if len(c.Delays) > 2 {
				c.Delays = c.Delays[:2]
			}
		}
		run.SetLast(c)
		st := map[string]int{}
		err, panicked := vfh.Catch(func() error { return vfC15eval(c, st) })
		if c.Stall > 0 && st["groups"] > 1001 {
			st["groups>1000-behind-stalled-consumer"]++
		}
		cls := []string{fmt.Sprintf("procs:%d", c.Procs)}
		if len(c.Ignore) == 0 {
			cls = append(cls, "ignore:none")
		} else {
			cls = append(cls, "ignore:some")
		}
		delayed := false
		for _, d := range c.Delays {
			if d > 0 {
				delayed = true
			}
		}
		if delayed {
			cls = append(cls, "delayed")
		}
		if c.FlushOn == 2 {
			cls = append(cls, "flush:block")
		} else {
			cls = append(cls, "flush:other")
		}
		for k := range st {
			if k != "groups" {
				cls = append(cls, k)
			}
		}
		nt := st["groups"] >= 2 && (len(c.Ignore) > 0 || delayed)
		run.Case(c, nt, map[string]any{"blocks": len(c.Spec.Blocks), "ignore": c.Ignore, "flushOn": c.FlushOn, "delays": c.Delays, "procs": c.Procs, "groups": st["groups"]}, cls...)
		if err != nil {
			if panicked {
				rt.Fatalf("C15 violated: panic: %v", err)
			}
			rt.Fatalf("C15 violated: %v", err)
		}
	})
}

func TestVfReplayC15(t *testing.T) {
	var c vfC15Case
	if !vfh.LoadReplay(t, &c) {
		t.Skip("no VERIF_REPLAY")
	}
	for i := 0; i < 20; i++ {
		if err, _ := vfh.Catch(func() error { return vfC15eval(&c, map[string]int{}) }); err != nil {
			t.Fatalf("C15 violated: %v", err)
		}
	}
}
