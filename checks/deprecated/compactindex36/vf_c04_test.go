package compactindex36

// C04 (legacy 36-byte-value format): every inserted key is found with its value.

import (
	"bytes"
	"context"
	"crypto/sha256"
	"encoding/binary"
	"fmt"
	"math/bits"
	"os"
	"path/filepath"
	"testing"

	"github.com/rpcpool/yellowstone-faithful/zz_verif/vfh"
	"pgregory.net/rapid"
)

type vfC04Case struct {
	Declared   int
	TargetSize uint64 // 0 = unknown
	Keys       [][]byte
	Vals       []uint64
	BulkN      int
	BulkSeed   uint64
	DupOf      int
	DupDiff    bool // the duplicate carries another value
	Reverse    bool
	Shape      string
}

func vfDerive(seed uint64, i int, n int) []byte {
	out := make([]byte, 0, n+32)
	var ctr uint32
	for len(out) < n {
		var b [20]byte
		binary.LittleEndian.PutUint64(b[:8], seed)
		binary.LittleEndian.PutUint64(b[8:16], uint64(i))
		binary.LittleEndian.PutUint32(b[16:], ctr)
		h := sha256.Sum256(b[:])
		out = append(out, h[:]...)
		ctr++
	}
	return out[:n]
}

func (c *vfC04Case) all() ([][]byte, []uint64) {
	keys := append([][]byte{}, c.Keys...)
	vals := append([]uint64{}, c.Vals...)
	max := c.TargetSize
	if max == 0 {
		max = ^uint64(0)
	}
	for i := 0; i < c.BulkN; i++ {
		keys = append(keys, vfDerive(c.BulkSeed, i, 32))
		v := binary.LittleEndian.Uint64(vfDerive(c.BulkSeed+1, i, 8))
		if max != ^uint64(0) {
			v %= (max + 1)
		}
		vals = append(vals, v)
	}
	return keys, vals
}

func vf36(v uint64) (o [36]byte) {
	copy(o[:], vfDerive(v, 36, 36))
	return
}

func vfBuild(dir string, c *vfC04Case, keys [][]byte, vals []uint64, order []int, tag string) ([]byte, error) {
	tmp := filepath.Join(dir, "tmp-"+tag)
	os.MkdirAll(tmp, 0o755)
	b, err := NewBuilder(tmp, uint(c.Declared), c.TargetSize)
	if err != nil {
		return nil, fmt.Errorf("NewBuilder: %w", err)
	}
	defer b.Close()
	for _, i := range order {
		if err := b.Insert(keys[i], vf36(vals[i])); err != nil {
			return nil, fmt.Errorf("Insert: %w", err)
		}
	}
	if c.DupOf >= 0 && c.DupOf < len(keys) {
		if err := b.Insert(keys[c.DupOf], vf36(vfDupVal(c, vals))); err != nil {
			return nil, fmt.Errorf("Insert(dup): %w", err)
		}
	}
	fp := filepath.Join(dir, "idx-"+tag)
	f, err := os.OpenFile(fp, os.O_CREATE|os.O_RDWR|os.O_TRUNC, 0o644)
	if err != nil {
		return nil, err
	}
	defer f.Close()
	if err := b.Seal(context.Background(), f); err != nil {
		return nil, fmt.Errorf("Seal: %w", err)
	}
	return os.ReadFile(fp)
}

// vfDupVal is the value inserted with the duplicate key: the same value, or (DupDiff) another representable one.
func vfDupVal(c *vfC04Case, vals []uint64) uint64 {
	v := vals[c.DupOf]
	if !c.DupDiff {
		return v
	}
	if v > 0 {
		return v - 1
	}
	return 1
}

func vfEval(c *vfC04Case) (sealed bool, nb int, verr error) {
	dir := vfh.TmpDir("c04l")
	defer os.RemoveAll(dir)
	keys, vals := c.all()
	n := len(keys)
	order := make([]int, n)
	for i := range order {
		order[i] = i
	}
	supported := c.DupOf < 0 && c.Declared >= 1
	for _, k := range keys {
		if len(k) > 65535 {
			supported = false
		}
	}
	nb = (c.Declared + targetEntriesPerBucket - 1) / targetEntriesPerBucket
	h := Header{NumBuckets: uint32(nb)}
	pop := make([]int, nb)
	maxPop := 0
	for _, k := range keys {
		pop[h.BucketHash(k)]++
	}
	for _, p := range pop {
		if p > maxPop {
			maxPop = p
		}
	}
	var raw []byte
	err, panicked := vfh.Catch(func() error {
		var e error
		raw, e = vfBuild(dir, c, keys, vals, order, "a")
		return e
	})
	if panicked {
		return false, nb, fmt.Errorf("builder panicked instead of returning an error: %v", err)
	}
	if err != nil {
		if supported && maxPop <= 11000 {
			return false, nb, fmt.Errorf("supported key set (n=%d) failed to build: %v", n, err)
		}
		return false, nb, nil
	}
	if c.DupOf >= 0 && c.DupDiff {
		return true, nb, fmt.Errorf("key #%d was inserted twice with two different values and Seal returned nil (n=%d, declared=%d): one of the two values is lost", c.DupOf, n, c.Declared)
	}
	check := func(raw []byte, tag string) error {
		db, err := Open(bytes.NewReader(raw))
		if err != nil {
			return fmt.Errorf("%s: Open after successful Seal: %v", tag, err)
		}
		for i, k := range keys {
			got, err := db.Lookup(k)
			if err != nil {
				return fmt.Errorf("%s: Seal returned nil but Lookup(key #%d len %d) = %v", tag, i, len(k), err)
			}
			if got != vf36(vals[i]) {
				return fmt.Errorf("%s: Seal returned nil but Lookup(key #%d) = %x, want value derived from %d", tag, i, got, vals[i])
			}
		}
		return nil
	}
	if err, _ := vfh.Catch(func() error { return check(raw, "build1") }); err != nil {
		return true, nb, err
	}
	raw2, err := vfBuild(dir, c, keys, vals, order, "b")
	if err != nil {
		return true, nb, fmt.Errorf("second identical build failed: %v", err)
	}
	if !bytes.Equal(raw, raw2) {
		return true, nb, fmt.Errorf("two builds of the same inserts differ")
	}
	if n > 1 {
		rev := make([]int, n)
		for i := range rev {
			rev[i] = n - 1 - i
		}
		raw3, err := vfBuild(dir, c, keys, vals, rev, "c")
		if err != nil {
			return true, nb, fmt.Errorf("reversed-order build failed: %v", err)
		}
		if err, _ := vfh.Catch(func() error { return check(raw3, "reversed") }); err != nil {
			return true, nb, err
		}
	}
	return true, nb, nil
}

func vfGen(t *rapid.T) *vfC04Case {
	c := &vfC04Case{DupOf: -1}
	c.Shape = rapid.SampledFrom([]string{"small", "small", "unknown-size", "tight-size", "declared-high", "dup", "key64k", "bulk"}).Draw(t, "shape")
	n := rapid.IntRange(1, 200).Draw(t, "n")
	c.TargetSize = rapid.OneOf(rapid.Uint64Range(1, 1<<20), rapid.SampledFrom([]uint64{1, 255, 256, 65535, 65536, 1<<24 - 1, 1 << 24, 1<<32 - 1, 1 << 32, 1<<56 - 1, 1 << 56, 1<<63 + 5, ^uint64(0)})).Draw(t, "target")
	if c.Shape == "unknown-size" {
		c.TargetSize = 0
	}
	max := c.TargetSize
	if max == 0 {
		max = ^uint64(0)
	}
	seen := map[string]bool{}
	for len(c.Keys) < n {
		k := rapid.SliceOfN(rapid.Byte(), 0, 40).Draw(t, "key")
		if seen[string(k)] {
			k = append(append([]byte{}, k...), byte(len(c.Keys)), byte(len(c.Keys)>>8), 0xfe)
			if seen[string(k)] {
				continue
			}
		}
		seen[string(k)] = true
		c.Keys = append(c.Keys, k)
		var v uint64
		switch rapid.IntRange(0, 3).Draw(t, "vk") {
		case 0:
			v = max
		case 1:
			v = 0
		default:
			v = rapid.Uint64Range(0, max).Draw(t, "v")
		}
		if c.Shape == "tight-size" {
			// values whose byte width equals the width of the target size
			w := (64 - bits.LeadingZeros64(max) + 7) / 8
			if w > 1 {
				lo := uint64(1) << (8 * (w - 1))
				if lo <= max {
					v = rapid.Uint64Range(lo, max).Draw(t, "vtight")
				}
			}
		}
		c.Vals = append(c.Vals, v)
	}
	c.Declared = len(c.Keys)
	switch c.Shape {
	case "declared-high":
		c.Declared = rapid.SampledFrom([]int{len(c.Keys) * 3, 10001, 25000}).Draw(t, "decl")
	case "dup":
		switch rapid.IntRange(0, 3).Draw(t, "dupKind") {
		case 1:
			k := min(len(c.Keys), rapid.IntRange(1, 3).Draw(t, "dupN"))
			c.Keys, c.Vals = c.Keys[:k], c.Vals[:k]
		case 2:
			c.Declared = rapid.SampledFrom([]int{10001, 25000, 60000}).Draw(t, "dupDeclared")
		case 3:
			k := min(len(c.Keys), rapid.IntRange(1, 3).Draw(t, "dupN"))
			c.Keys, c.Vals = c.Keys[:k], c.Vals[:k]
			c.Declared = len(c.Keys) * rapid.IntRange(1, 20).Draw(t, "dupDeclMul")
		}
		c.DupOf = rapid.IntRange(0, len(c.Keys)-1).Draw(t, "dupOf")
		c.DupDiff = rapid.IntRange(0, 3).Draw(t, "dupDiff") > 0
	case "key64k":
		c.Keys[0] = vfDerive(1, 1, rapid.SampledFrom([]int{65535, 65536, 65537, 70000}).Draw(t, "k64"))
	case "bulk":
		if vfh.EnvInt("VERIF_BULK", 0) == 1 {
			c.BulkN = rapid.SampledFrom([]int{9999, 10000, 10001, 20001}).Draw(t, "bulkN")
			c.BulkSeed = rapid.Uint64().Draw(t, "bulkSeed")
			c.Declared = len(c.Keys) + c.BulkN
		}
	}
	return c
}

func TestVfC04Legacy36(t *testing.T) {
	run := vfh.Begin("C04", "legacy36")
	defer run.End(t)
	run.Require("shape:small", "shape:unknown-size", "shape:dup", "shape:key64k", "sealed", "error-path")
	for _, p := range vfh.ReplayFiles("C04", "legacy36") {
		var c vfC04Case
		if err := vfh.LoadCaseFile(p, &c); err != nil {
			t.Fatalf("regress %s: %v", p, err)
		}
		run.SetLast(&c)
		if _, _, err := vfEval(&c); err != nil {
			t.Fatalf("regression case %s: %v", filepath.Base(p), err)
		}
		run.Class("regress-replayed")
	}
	rapid.Check(t, func(rt *rapid.T) {
		c := vfGen(rt)
		run.SetLast(c)
		sealed, nb, err := vfEval(c)
		cls := []string{"shape:" + c.Shape}
		if sealed {
			cls = append(cls, "sealed")
		} else {
			cls = append(cls, "error-path")
		}
		if nb > 1 {
			cls = append(cls, "multi-bucket")
		}
		run.Case(c, len(c.Keys)+c.BulkN >= 3 || nb >= 2, map[string]any{"shape": c.Shape, "keys": len(c.Keys), "bulk": c.BulkN, "declared": c.Declared, "target": c.TargetSize, "sealed": sealed}, cls...)
		if err != nil {
			rt.Fatalf("C04 violated (deprecated/compactindex36): %v", err)
		}
	})
}

func TestVfReplayC04(t *testing.T) {
	var c vfC04Case
	if !vfh.LoadReplay(t, &c) {
		t.Skip("no VERIF_REPLAY")
	}
	if _, _, err := vfEval(&c); err != nil {
		t.Fatalf("C04 violated: %v", err)
	}
}
