package iplddecoders

// C11: differential test of the hand-written (fast) node decoders against the
// schema-driven bindnode + dag-cbor decoder, on nodes produced by encoding
// generated typed values with the reference encoder and on all fixture nodes.

import (
	"bufio"
	"bytes"
	"crypto/sha256"
	"encoding/binary"
	"fmt"
	"io"
	"math"
	"os"
	"path/filepath"
	"testing"

	"github.com/ipfs/go-cid"
	"github.com/ipld/go-ipld-prime"
	"github.com/ipld/go-ipld-prime/codec/dagcbor"
	"github.com/ipld/go-ipld-prime/datamodel"
	cidlink "github.com/ipld/go-ipld-prime/linking/cid"
	mh "github.com/multiformats/go-multihash"
	"github.com/rpcpool/yellowstone-faithful/ipld/ipldbindcode"
	"github.com/rpcpool/yellowstone-faithful/zz_verif/vfh"
	"pgregory.net/rapid"
)

type vfC11Case struct {
	Kind int
	Raw  []byte
	Desc string
}

func vfLinks(l ipldbindcode.List__Link) []string {
	out := []string{}
	for _, x := range l {
		if x == nil {
			out = append(out, "<nil>")
			continue
		}
		out = append(out, x.(cidlink.Link).Cid.String())
	}
	return out
}

func vfSameLinks(name string, a, b ipldbindcode.List__Link) error {
	x, y := vfLinks(a), vfLinks(b)
	if len(x) != len(y) {
		return fmt.Errorf("%s: fast has %d links, reference %d", name, len(x), len(y))
	}
	for i := range x {
		if x[i] != y[i] {
			return fmt.Errorf("%s[%d]: fast %s, reference %s", name, i, x[i], y[i])
		}
	}
	return nil
}

func vfOptInt(p **int) (int, bool) {
	if p == nil || *p == nil {
		return 0, false
	}
	return **p, true
}

func vfSameOpt(name string, a, b **int) error {
	av, aok := vfOptInt(a)
	bv, bok := vfOptInt(b)
	if aok != bok || av != bv {
		return fmt.Errorf("%s: fast (%d,present=%v), reference (%d,present=%v)", name, av, aok, bv, bok)
	}
	return nil
}

func vfSameFrame(name string, a, b *ipldbindcode.DataFrame) error {
	if a.Kind != b.Kind {
		return fmt.Errorf("%s.kind: %d vs %d", name, a.Kind, b.Kind)
	}
	for _, e := range []error{vfSameOpt(name+".hash", a.Hash, b.Hash), vfSameOpt(name+".index", a.Index, b.Index), vfSameOpt(name+".total", a.Total, b.Total)} {
		if e != nil {
			return e
		}
	}
	// accessors the server uses
	ah, aok := a.GetHash()
	bh, bok := b.GetHash()
	if ah != bh || aok != bok || a.HasHash() != b.HasHash() {
		return fmt.Errorf("%s.GetHash: fast (%d,%v), reference (%d,%v)", name, ah, aok, bh, bok)
	}
	ai, aok := a.GetIndex()
	bi, bok := b.GetIndex()
	if ai != bi || aok != bok || a.HasIndex() != b.HasIndex() {
		return fmt.Errorf("%s.GetIndex differs", name)
	}
	at, aok := a.GetTotal()
	bt, bok := b.GetTotal()
	if at != bt || aok != bok || a.HasTotal() != b.HasTotal() {
		return fmt.Errorf("%s.GetTotal differs", name)
	}
	if !bytes.Equal(a.Bytes(), b.Bytes()) {
		return fmt.Errorf("%s.data: fast %d bytes, reference %d bytes", name, len(a.Bytes()), len(b.Bytes()))
	}
	if a.HasNext() != b.HasNext() {
		return fmt.Errorf("%s.HasNext: fast %v, reference %v", name, a.HasNext(), b.HasNext())
	}
	// An empty next list and an absent/null one are the same observable thing
	// (HasNext false, no links): only the link sequences are compared.
	an, _ := a.GetNext()
	bn, _ := b.GetNext()
	return vfSameLinks(name+".next", an, bn)
}

// vfC11eval decodes raw with both decoders and compares. kind is the kind the
// node was generated as.
func vfC11eval(c *vfC11Case) error {
	raw := c.Raw
	type pair struct {
		fast, ref  any
		ferr, rerr error
	}
	var p pair
	var cmp func() error
	switch Kind(c.Kind) {
	case KindTransaction:
		f, fe := DecodeTransaction(raw)
		r, re := _DecodeTransactionClassic(raw)
		p = pair{f, r, fe, re}
		cmp = func() error {
			if f.Kind != r.Kind || f.Slot != r.Slot {
				return fmt.Errorf("transaction kind/slot: fast (%d,%d), reference (%d,%d)", f.Kind, f.Slot, r.Kind, r.Slot)
			}
			if e := vfSameOpt("transaction.index", f.Index, r.Index); e != nil {
				return e
			}
			fi, fok := f.GetPositionIndex()
			ri, rok := r.GetPositionIndex()
			if fi != ri || fok != rok || f.HasIndex() != r.HasIndex() {
				return fmt.Errorf("transaction.GetPositionIndex differs")
			}
			if e := vfSameFrame("transaction.data", &f.Data, &r.Data); e != nil {
				return e
			}
			return vfSameFrame("transaction.metadata", &f.Metadata, &r.Metadata)
		}
	case KindEntry:
		f, fe := DecodeEntry(raw)
		r, re := _DecodeEntryClassic(raw)
		p = pair{f, r, fe, re}
		cmp = func() error {
			if f.Kind != r.Kind || f.NumHashes != r.NumHashes || !bytes.Equal(f.Hash, r.Hash) {
				return fmt.Errorf("entry scalar fields differ: fast (%d,%d,%x) reference (%d,%d,%x)", f.Kind, f.NumHashes, f.Hash, r.Kind, r.NumHashes, r.Hash)
			}
			return vfSameLinks("entry.transactions", f.Transactions, r.Transactions)
		}
	case KindBlock:
		f, fe := DecodeBlock(raw)
		r, re := _DecodeBlockClassic(raw)
		p = pair{f, r, fe, re}
		cmp = func() error {
			if f.Kind != r.Kind || f.Slot != r.Slot {
				return fmt.Errorf("block kind/slot differ")
			}
			if len(f.Shredding) != len(r.Shredding) {
				return fmt.Errorf("block.shredding: fast %d, reference %d", len(f.Shredding), len(r.Shredding))
			}
			for i := range f.Shredding {
				if f.Shredding[i] != r.Shredding[i] {
					return fmt.Errorf("block.shredding[%d]: fast %+v, reference %+v", i, f.Shredding[i], r.Shredding[i])
				}
			}
			if e := vfSameLinks("block.entries", f.Entries, r.Entries); e != nil {
				return e
			}
			if f.Meta.Parent_slot != r.Meta.Parent_slot || f.Meta.Blocktime != r.Meta.Blocktime {
				return fmt.Errorf("block.meta: fast %+v, reference %+v", f.Meta, r.Meta)
			}
			if e := vfSameOpt("block.meta.block_height", f.Meta.Block_height, r.Meta.Block_height); e != nil {
				return e
			}
			fh, fok := f.GetBlockHeight()
			rh, rok := r.GetBlockHeight()
			if fh != rh || fok != rok || f.Meta.HasBlockHeight() != r.Meta.HasBlockHeight() {
				return fmt.Errorf("block.GetBlockHeight differs")
			}
			if !f.Meta.Equivalent(r.Meta) {
				return fmt.Errorf("block.meta not Equivalent")
			}
			if f.Rewards.(cidlink.Link).Cid.String() != r.Rewards.(cidlink.Link).Cid.String() {
				return fmt.Errorf("block.rewards: fast %s, reference %s", f.Rewards, r.Rewards)
			}
			return nil
		}
	case KindSubset:
		f, fe := DecodeSubset(raw)
		r, re := _DecodeSubsetClassic(raw)
		p = pair{f, r, fe, re}
		cmp = func() error {
			if f.Kind != r.Kind || f.First != r.First || f.Last != r.Last {
				return fmt.Errorf("subset scalars differ: fast %+v reference %+v", []int{f.Kind, f.First, f.Last}, []int{r.Kind, r.First, r.Last})
			}
			return vfSameLinks("subset.blocks", f.Blocks, r.Blocks)
		}
	case KindEpoch:
		f, fe := DecodeEpoch(raw)
		r, re := _DecodeEpochClassic(raw)
		p = pair{f, r, fe, re}
		cmp = func() error {
			if f.Kind != r.Kind || f.Epoch != r.Epoch {
				return fmt.Errorf("epoch scalars differ")
			}
			return vfSameLinks("epoch.subsets", f.Subsets, r.Subsets)
		}
	case KindRewards:
		f, fe := DecodeRewards(raw)
		r, re := _DecodeRewardsClassic(raw)
		p = pair{f, r, fe, re}
		cmp = func() error {
			if f.Kind != r.Kind || f.Slot != r.Slot {
				return fmt.Errorf("rewards scalars differ")
			}
			return vfSameFrame("rewards.data", &f.Data, &r.Data)
		}
	case KindDataFrame:
		f, fe := DecodeDataFrame(raw)
		r, re := _DecodeDataFrameClassic(raw)
		p = pair{f, r, fe, re}
		cmp = func() error { return vfSameFrame("dataframe", f, r) }
	default:
		return fmt.Errorf("harness: unknown kind %d", c.Kind)
	}
	if p.rerr != nil {
		return fmt.Errorf("harness: the reference decoder rejects a node produced by the reference encoder: %v", p.rerr)
	}
	if p.ferr != nil {
		return fmt.Errorf("fast decoder rejects a schema-conforming %s node: %v", Kind(c.Kind), p.ferr)
	}
	if err := cmp(); err != nil {
		return err
	}
	// DecodeAny returns the generating kind
	anyv, err := DecodeAny(raw)
	if err != nil {
		return fmt.Errorf("DecodeAny rejects a %s node: %v", Kind(c.Kind), err)
	}
	gotKind := -1
	switch anyv.(type) {
	case *ipldbindcode.Transaction:
		gotKind = int(KindTransaction)
	case *ipldbindcode.Entry:
		gotKind = int(KindEntry)
	case *ipldbindcode.Block:
		gotKind = int(KindBlock)
	case *ipldbindcode.Subset:
		gotKind = int(KindSubset)
	case *ipldbindcode.Epoch:
		gotKind = int(KindEpoch)
	case *ipldbindcode.Rewards:
		gotKind = int(KindRewards)
	case *ipldbindcode.DataFrame:
		gotKind = int(KindDataFrame)
	}
	if gotKind != c.Kind {
		return fmt.Errorf("DecodeAny returned kind %d for a %s node", gotKind, Kind(c.Kind))
	}
	// a node of one kind is never accepted as another kind
	for k := KindTransaction; k <= KindDataFrame; k++ {
		if int(k) == c.Kind {
			continue
		}
		var e error
		func() {
			defer func() {
				if r := recover(); r != nil {
					e = fmt.Errorf("panic: %v", r) // a panic is a rejection here; crashes are judged by C12
				}
			}()
			switch k {
			case KindTransaction:
				_, e = DecodeTransaction(raw)
			case KindEntry:
				_, e = DecodeEntry(raw)
			case KindBlock:
				_, e = DecodeBlock(raw)
			case KindSubset:
				_, e = DecodeSubset(raw)
			case KindEpoch:
				_, e = DecodeEpoch(raw)
			case KindRewards:
				_, e = DecodeRewards(raw)
			case KindDataFrame:
				_, e = DecodeDataFrame(raw)
			}
		}()
		if e == nil {
			return fmt.Errorf("a %s node was accepted by the %s decoder", Kind(c.Kind), k)
		}
	}
	return nil
}

// ---------------------------------------------------------------------------
// generators of typed values

var vfInts = []int{0, 1, -1, 23, 24, 255, 256, 65535, 65536, 1 << 31, 1<<32 - 1, 1 << 32, math.MaxInt64, math.MinInt64, -24, -25, -256, -257}

func vfGenInt(t *rapid.T, label string) int {
	if rapid.Bool().Draw(t, label+"Edge") {
		return rapid.SampledFrom(vfInts).Draw(t, label)
	}
	return rapid.Int().Draw(t, label)
}

func vfGenCid(t *rapid.T) cid.Cid {
	seed := rapid.Uint64().Draw(t, "cidSeed")
	var b [8]byte
	binary.LittleEndian.PutUint64(b[:], seed)
	h := sha256.Sum256(b[:])
	switch rapid.SampledFrom([]string{"cbor256", "cbor256", "cbor256", "raw-identity", "sha512", "dummy", "v0"}).Draw(t, "cidKind") {
	case "raw-identity":
		sum, _ := mh.Sum(h[:rapid.IntRange(0, 20).Draw(t, "idLen")], mh.IDENTITY, -1)
		return cid.NewCidV1(cid.Raw, sum)
	case "sha512":
		sum, _ := mh.Sum(h[:], mh.SHA2_512, -1)
		return cid.NewCidV1(cid.DagCBOR, sum)
	case "dummy":
		return cid.MustParse("bafkqaaa")
	case "v0":
		sum, _ := mh.Sum(h[:], mh.SHA2_256, -1)
		return cid.NewCidV0(sum)
	}
	sum, _ := mh.Sum(h[:], mh.SHA2_256, -1)
	return cid.NewCidV1(cid.DagCBOR, sum)
}

func vfGenLinks(t *rapid.T, label string) ipldbindcode.List__Link {
	n := rapid.SampledFrom([]int{0, 0, 1, 2, 3, 23, 24, 25, 100, 300}).Draw(t, label+"Len")
	if n == 300 && rapid.IntRange(0, 20).Draw(t, label+"Huge") == 0 {
		n = 5000
	}
	l := ipldbindcode.List__Link{}
	if n <= 3 {
		for i := 0; i < n; i++ {
			l = append(l, cidlink.Link{Cid: vfGenCid(t)})
		}
		return l
	}
	base := rapid.Uint64().Draw(t, label+"Base")
	for i := 0; i < n; i++ {
		var b [16]byte
		binary.LittleEndian.PutUint64(b[:8], base)
		binary.LittleEndian.PutUint64(b[8:], uint64(i))
		sum, _ := mh.Sum(b[:], mh.SHA2_256, -1)
		l = append(l, cidlink.Link{Cid: cid.NewCidV1(cid.DagCBOR, sum)})
	}
	return l
}

func vfGenBytes(t *rapid.T, label string) []byte {
	n := rapid.SampledFrom([]int{0, 0, 1, 23, 24, 255, 256, 1000, 65535, 65536}).Draw(t, label+"Len")
	if n <= 24 {
		return rapid.SliceOfN(rapid.Byte(), n, n).Draw(t, label)
	}
	seed := rapid.Byte().Draw(t, label+"Seed")
	b := make([]byte, n)
	for i := range b {
		b[i] = seed + byte(i*7)
	}
	return b
}

func vfPP(v int) **int { p := &v; return &p }
func vfNull() **int    { var p *int; return &p }

// middle optional: null or present
func vfGenOptMid(t *rapid.T, label string, st *vfOptStats) **int {
	if rapid.Bool().Draw(t, label+"Null") {
		st.null++
		return vfNull()
	}
	st.present++
	return vfPP(vfGenInt(t, label))
}

// trailing optional: absent, null or present
func vfGenOptTrail(t *rapid.T, label string, st *vfOptStats) **int {
	switch rapid.IntRange(0, 2).Draw(t, label+"Mode") {
	case 0:
		st.absent++
		return nil
	case 1:
		st.null++
		return vfNull()
	}
	st.present++
	return vfPP(vfGenInt(t, label))
}

type vfOptStats struct{ absent, null, present, longList int }

func vfGenFrame(t *rapid.T, label string, st *vfOptStats) ipldbindcode.DataFrame {
	f := ipldbindcode.DataFrame{Kind: int(KindDataFrame)}
	f.Hash = vfGenOptMid(t, label+"Hash", st)
	f.Index = vfGenOptMid(t, label+"Index", st)
	f.Total = vfGenOptMid(t, label+"Total", st)
	f.Data = vfGenBytes(t, label+"Data")
	switch rapid.IntRange(0, 2).Draw(t, label+"NextMode") {
	case 0:
		st.absent++
	case 1:
		st.null++
		var pl *ipldbindcode.List__Link
		f.Next = &pl
	case 2:
		st.present++
		l := vfGenLinks(t, label+"Next")
		if len(l) > 23 {
			st.longList++
		}
		pl := &l
		f.Next = &pl
	}
	return f
}

func vfEncode(v any, kind Kind) ([]byte, error) {
	p := ipldbindcode.Prototypes
	switch kind {
	case KindTransaction:
		return ipld.Marshal(dagcbor.Encode, v, p.Transaction.Type())
	case KindEntry:
		return ipld.Marshal(dagcbor.Encode, v, p.Entry.Type())
	case KindBlock:
		return ipld.Marshal(dagcbor.Encode, v, p.Block.Type())
	case KindSubset:
		return ipld.Marshal(dagcbor.Encode, v, p.Subset.Type())
	case KindEpoch:
		return ipld.Marshal(dagcbor.Encode, v, p.Epoch.Type())
	case KindRewards:
		return ipld.Marshal(dagcbor.Encode, v, p.Rewards.Type())
	}
	return ipld.Marshal(dagcbor.Encode, v, p.DataFrame.Type())
}

func vfC11gen(t *rapid.T) (*vfC11Case, vfOptStats) {
	var st vfOptStats
	kind := Kind(rapid.IntRange(0, 6).Draw(t, "kind"))
	var v any
	switch kind {
	case KindTransaction:
		x := ipldbindcode.Transaction{Kind: int(kind), Slot: vfGenInt(t, "slot")}
		x.Data = vfGenFrame(t, "data", &st)
		x.Metadata = vfGenFrame(t, "meta", &st)
		x.Index = vfGenOptTrail(t, "index", &st)
		v = &x
	case KindEntry:
		x := ipldbindcode.Entry{Kind: int(kind), NumHashes: vfGenInt(t, "numHashes"), Hash: vfGenBytes(t, "hash"), Transactions: vfGenLinks(t, "txs")}
		if len(x.Transactions) > 23 {
			st.longList++
		}
		v = &x
	case KindBlock:
		x := ipldbindcode.Block{Kind: int(kind), Slot: vfGenInt(t, "slot"), Entries: vfGenLinks(t, "entries")}
		ns := rapid.SampledFrom([]int{0, 1, 2, 24, 100}).Draw(t, "nShred")
		x.Shredding = ipldbindcode.List__Shredding{}
		for i := 0; i < ns; i++ {
			x.Shredding = append(x.Shredding, ipldbindcode.Shredding{EntryEndIdx: vfGenInt(t, "eei"), ShredEndIdx: vfGenInt(t, "sei")})
		}
		x.Meta = ipldbindcode.SlotMeta{Parent_slot: vfGenInt(t, "parent"), Blocktime: vfGenInt(t, "blocktime"), Block_height: vfGenOptTrail(t, "height", &st)}
		x.Rewards = cidlink.Link{Cid: vfGenCid(t)}
		if len(x.Entries) > 23 || ns > 23 {
			st.longList++
		}
		v = &x
	case KindSubset:
		x := ipldbindcode.Subset{Kind: int(kind), First: vfGenInt(t, "first"), Last: vfGenInt(t, "last"), Blocks: vfGenLinks(t, "blocks")}
		if len(x.Blocks) > 23 {
			st.longList++
		}
		v = &x
	case KindEpoch:
		x := ipldbindcode.Epoch{Kind: int(kind), Epoch: vfGenInt(t, "epoch"), Subsets: vfGenLinks(t, "subsets")}
		if len(x.Subsets) > 23 {
			st.longList++
		}
		v = &x
	case KindRewards:
		x := ipldbindcode.Rewards{Kind: int(kind), Slot: vfGenInt(t, "slot"), Data: vfGenFrame(t, "data", &st)}
		v = &x
	case KindDataFrame:
		x := vfGenFrame(t, "frame", &st)
		v = &x
	}
	raw, err := vfEncode(v, kind)
	if err != nil {
		t.Fatalf("harness: reference encoder failed: %v", err)
	}
	return &vfC11Case{Kind: int(kind), Raw: raw, Desc: fmt.Sprintf("%s node, %d bytes", kind, len(raw))}, st
}

var _ datamodel.Link = cidlink.Link{}

func TestVfC11(t *testing.T) {
	run := vfh.Begin("C11", "generated")
	defer run.End(t)
	run.Require("kind:Transaction", "kind:Entry", "kind:Block", "kind:Subset", "kind:Epoch", "kind:Rewards", "kind:DataFrame", "opt-absent", "opt-null", "opt-present", "list>23")
	rapid.Check(t, func(rt *rapid.T) {
		c, st := vfC11gen(rt)
		run.SetLast(c)
		cls := []string{"kind:" + Kind(c.Kind).String()}
		if st.absent > 0 {
			cls = append(cls, "opt-absent")
		}
		if st.null > 0 {
			cls = append(cls, "opt-null")
		}
		if st.present > 0 {
			cls = append(cls, "opt-present")
		}
		if st.longList > 0 {
			cls = append(cls, "list>23")
		}
		nt := (st.present > 0 && st.absent+st.null > 0) || st.longList > 0
		smp := map[string]any{"kind": Kind(c.Kind).String(), "bytes": len(c.Raw), "head": fmt.Sprintf("%x", c.Raw[:min(len(c.Raw), 48)])}
		run.Case(c.Raw, nt, smp, cls...)
		err, panicked := vfh.Catch(func() error { return vfC11eval(c) })
		if err != nil {
			if panicked {
				rt.Fatalf("C11 violated: fast decoder panicked on a schema-conforming node: %v", err)
			}
			rt.Fatalf("C11 violated: %v", err)
		}
	})
}

// TestVfC11Fixtures: every node of the fixture CARs.
func TestVfC11Fixtures(t *testing.T) {
	run := vfh.Begin("C11", "fixtures")
	defer run.End(t)
	files, _ := filepath.Glob(filepath.Join(os.Getenv("VERIF_REPO"), "fixtures", "*.car"))
	if len(files) == 0 {
		t.Skip("no fixture CARs")
	}
	for _, fp := range files {
		f, err := os.Open(fp)
		if err != nil {
			t.Fatal(err)
		}
		br := bufio.NewReader(f)
		hl, err := binary.ReadUvarint(br)
		if err != nil {
			t.Fatal(err)
		}
		io.CopyN(io.Discard, br, int64(hl))
		for {
			l, err := binary.ReadUvarint(br)
			if err != nil {
				break
			}
			sec := make([]byte, l)
			if _, err := io.ReadFull(br, sec); err != nil {
				t.Fatalf("%s: %v", fp, err)
			}
			n, _, err := cid.CidFromBytes(sec)
			if err != nil {
				t.Fatalf("%s: %v", fp, err)
			}
			raw := sec[n:]
			if len(raw) < 2 {
				continue
			}
			c := &vfC11Case{Kind: int(raw[1]), Raw: raw, Desc: filepath.Base(fp)}
			run.SetLast(c)
			run.Case(raw, true, nil, "kind:"+Kind(c.Kind).String())
			if err, _ := vfh.Catch(func() error { return vfC11eval(c) }); err != nil {
				t.Fatalf("C11 violated on fixture %s: %v", filepath.Base(fp), err)
			}
		}
		f.Close()
	}
}

func TestVfReplayC11(t *testing.T) {
	var c vfC11Case
	if !vfh.LoadReplay(t, &c) {
		t.Skip("no VERIF_REPLAY")
	}
	if err, _ := vfh.Catch(func() error { return vfC11eval(&c) }); err != nil {
		t.Fatalf("C11 violated: %v", err)
	}
}
