package rangecache

// C17: the range cache is transparent. Model = the file bytes + the set of
// injected fetch failures; the remote is the harness's own fetcher.

import (
	"bytes"
	"context"
	"encoding/json"
	"errors"
	"fmt"
	"io"
	"os"
	"path/filepath"
	"sync"
	"testing"
	"time"

	"github.com/rpcpool/yellowstone-faithful/zz_verif/vfh"
	"pgregory.net/rapid"
)

type vfC17Op struct {
	Kind     string // "get", "set", "expire-all", "expire-none"
	Start    int64
	Len      int64
	Fail     bool // a fetch issued by this get fails
	Scribble bool // ... after writing garbage into the buffer
	ErrKind  int  // how the failing fetch fails: 0 (0, injected error); 1 (half of the bytes, io.EOF) - a truncated remote;
	//                2 (0, io.EOF); 3 (half, io.ErrUnexpectedEOF); 4 (0, context.DeadlineExceeded)
}

type vfC17Case struct {
	Size int
	Ops  []vfC17Op
}

func vfFileBytes(n int) []byte {
	b := make([]byte, n)
	for i := range b {
		b[i] = byte(i*31 + 7)
	}
	return b
}

var errVfInjected = errors.New("injected remote failure")

type vfC17Stats struct {
	supersetHit, setReplaced, failures, invalid int
}

func vfC17eval(c *vfC17Case, st *vfC17Stats) error {
	file := vfFileBytes(c.Size)
	var failNow, scribble bool
	errKind := 0
	fetches, failedFetches := 0, 0
	rc := NewRangeCache(int64(c.Size), "vf", func(p []byte, off int64) (int, error) {
		fetches++
		if off < 0 || off+int64(len(p)) > int64(len(file)) {
			// the cache validated the range before; a fetch outside the file is a violation by itself
			panic(fmt.Sprintf("fetch outside the file: off=%d len=%d size=%d", off, len(p), len(file)))
		}
		if failNow {
			failedFetches++
			if scribble {
				for i := range p {
					p[i] = 0xBD
				}
			}
			switch errKind {
			case 1:
				return copy(p[:len(p)/2], file[off:]), io.EOF
			case 2:
				return 0, io.EOF
			case 3:
				return copy(p[:len(p)/2], file[off:]), io.ErrUnexpectedEOF
			case 4:
				return 0, context.DeadlineExceeded
			}
			return 0, errVfInjected
		}
		return copy(p, file[off:]), nil
	})
	ctx := context.Background()
	type rng struct{ s, e int64 }
	var cached []rng // model of ranges that may be cached (for classification only)
	for i, op := range c.Ops {
		switch op.Kind {
		case "set":
			if op.Start < 0 || op.Len < 0 || op.Start+op.Len > int64(c.Size) {
				continue // callers only set valid ranges
			}
			for _, r := range cached {
				if op.Start <= r.s && op.Start+op.Len >= r.e && (r.e-r.s) < op.Len {
					st.setReplaced++
				}
			}
			if err := rc.SetRange(ctx, op.Start, op.Len, append([]byte{}, file[op.Start:op.Start+op.Len]...)); err != nil {
				return fmt.Errorf("op %d: SetRange(%d,%d) with the true bytes failed: %v", i, op.Start, op.Len, err)
			}
			cached = append(cached, rng{op.Start, op.Start + op.Len})
		case "expire-all":
			time.Sleep(time.Microsecond)
			rc.DeleteOldEntries(ctx, -time.Hour)
			cached = nil
		case "expire-none":
			rc.DeleteOldEntries(ctx, 24*time.Hour)
		case "get":
			valid := op.Start >= 0 && op.Len >= 0 && op.Start+op.Len <= int64(c.Size)
			failNow, scribble, errKind = op.Fail, op.Scribble, op.ErrKind
			f0, ff0 := fetches, failedFetches
			got, err := rc.GetRange(ctx, op.Start, op.Len)
			failNow = false
			if !valid {
				st.invalid++
				if err == nil {
					return fmt.Errorf("op %d: GetRange(%d,%d) on a %d-byte file is out of range but returned %d bytes instead of an error", i, op.Start, op.Len, c.Size, len(got))
				}
				if fetches != f0 {
					return fmt.Errorf("op %d: GetRange(%d,%d) out of range issued a remote fetch", i, op.Start, op.Len)
				}
				continue
			}
			if err != nil {
				if failedFetches == ff0 {
					return fmt.Errorf("op %d: GetRange(%d,%d) failed (%v) although no fetch issued for it failed", i, op.Start, op.Len, err)
				}
				st.failures++
				// the failure must not have been cached: the same read with a healthy remote returns the true bytes
				got2, err2 := rc.GetRange(ctx, op.Start, op.Len)
				if err2 != nil {
					return fmt.Errorf("op %d: GetRange(%d,%d) still fails (%v) after the remote recovered", i, op.Start, op.Len, err2)
				}
				if !bytes.Equal(got2, file[op.Start:op.Start+op.Len]) {
					return fmt.Errorf("op %d: after a failed fetch GetRange(%d,%d) returns bytes that are not the remote's (failed fetch was cached)", i, op.Start, op.Len)
				}
				cached = append(cached, rng{op.Start, op.Start + op.Len})
				continue
			}
			if !bytes.Equal(got, file[op.Start:op.Start+op.Len]) {
				return fmt.Errorf("op %d: GetRange(%d,%d) returned %x, the remote holds %x", i, op.Start, op.Len, got, file[op.Start:op.Start+op.Len])
			}
			// the caller owns the returned buffer: scribbling over it must not change later reads
			for k := range got {
				got[k] = 0x5A
			}
			if fetches == f0 {
				for _, r := range cached {
					if r.s <= op.Start && r.e >= op.Start+op.Len && (r.e-r.s) > op.Len {
						st.supersetHit++
						break
					}
				}
			}
			cached = append(cached, rng{op.Start, op.Start + op.Len})
		}
	}
	return nil
}

func vfC17genOp(t *rapid.T, size int) vfC17Op {
	var op vfC17Op
	op.Kind = rapid.SampledFrom([]string{"get", "get", "get", "get", "set", "set", "expire-all", "expire-none"}).Draw(t, "kind")
	switch rapid.IntRange(0, 9).Draw(t, "rangeKind") {
	case 0: // possibly invalid
		op.Start = rapid.Int64Range(-2, int64(size)+2).Draw(t, "start")
		op.Len = rapid.Int64Range(-2, int64(size)+3).Draw(t, "len")
	case 1: // touching the end
		op.Len = rapid.Int64Range(0, int64(size)).Draw(t, "lenEnd")
		op.Start = int64(size) - op.Len + rapid.Int64Range(0, 1).Draw(t, "past")
	default:
		op.Start = rapid.Int64Range(0, int64(size)).Draw(t, "startV")
		op.Len = rapid.Int64Range(0, int64(size)-op.Start).Draw(t, "lenV")
	}
	if op.Kind == "get" {
		op.Fail = rapid.IntRange(0, 5).Draw(t, "fail") == 0
		op.Scribble = rapid.Bool().Draw(t, "scribble")
		op.ErrKind = rapid.IntRange(0, 4).Draw(t, "errKind")
	}
	return op
}

func TestVfC17(t *testing.T) {
	run := vfh.Begin("C17", "histories")
	defer run.End(t)
	run.Require("superset-hit", "set-replaced-subsets", "failure-injected", "invalid-range")
	rapid.Check(t, func(rt *rapid.T) {
		c := &vfC17Case{}
		c.Size = rapid.OneOf(rapid.IntRange(8, 64), rapid.IntRange(8, 4096)).Draw(rt, "size")
		n := rapid.IntRange(1, 60).Draw(rt, "nOps")
		for i := 0; i < n; i++ {
			c.Ops = append(c.Ops, vfC17genOp(rt, c.Size))
		}
		run.SetLast(c)
		var st vfC17Stats
		err, panicked := vfh.Catch(func() error { return vfC17eval(c, &st) })
		var cls []string
		if st.supersetHit > 0 {
			cls = append(cls, "superset-hit")
		}
		if st.setReplaced > 0 {
			cls = append(cls, "set-replaced-subsets")
		}
		if st.failures > 0 {
			cls = append(cls, "failure-injected")
		}
		if st.invalid > 0 {
			cls = append(cls, "invalid-range")
		}
		run.Case(c, len(cls) > 0 && (st.supersetHit+st.setReplaced+st.failures) > 0, map[string]any{"size": c.Size, "ops": len(c.Ops), "first": c.Ops[:min(len(c.Ops), 5)]}, cls...)
		if err != nil {
			if panicked {
				rt.Fatalf("C17 violated: %v", err)
			}
			rt.Fatalf("C17 violated: %v", err)
		}
	})
}

// TestVfC17Exhaustive: 6-byte file, every history of length <= VERIF_C17_LEN.
func TestVfC17Exhaustive(t *testing.T) {
	run := vfh.Begin("C17", "exhaustive")
	defer run.End(t)
	maxLen := vfh.EnvInt("VERIF_C17_LEN", 2)
	const size = 6
	var alphabet []vfC17Op
	for s := int64(-1); s <= size+1; s++ {
		for l := int64(-1); l <= size+1; l++ {
			if s < 0 && l != 1 || l < 0 && s != 1 {
				continue
			}
			alphabet = append(alphabet, vfC17Op{Kind: "get", Start: s, Len: l})
			if s >= 0 && l >= 0 && s+l <= size {
				alphabet = append(alphabet, vfC17Op{Kind: "get", Start: s, Len: l, Fail: true, Scribble: true})
				if s+l == size && l > 0 {
					// a read up to the end of the file against a truncated remote
					alphabet = append(alphabet, vfC17Op{Kind: "get", Start: s, Len: l, Fail: true, ErrKind: 1})
				}
				alphabet = append(alphabet, vfC17Op{Kind: "set", Start: s, Len: l})
			}
		}
	}
	alphabet = append(alphabet, vfC17Op{Kind: "expire-all"})
	shard, shards := vfh.Shard()
	idx := 0
	samples := 0
	var rec func(ops []vfC17Op)
	rec = func(ops []vfC17Op) {
		if len(ops) > 0 {
			idx++
			if idx%shards == shard {
				c := &vfC17Case{Size: size, Ops: ops}
				run.SetLast(c)
				var st vfC17Stats
				err, _ := vfh.Catch(func() error { return vfC17eval(c, &st) })
				nt := st.supersetHit+st.setReplaced+st.failures > 0
				var smp any
				if nt && samples < 3 && len(ops) == maxLen {
					smp = c
					samples++
				}
				run.Case(fmt.Sprint(ops), nt, smp, fmt.Sprintf("len=%d", len(ops)))
				if err != nil {
					t.Fatalf("C17 violated: %v", err)
				}
			}
		}
		if len(ops) == maxLen {
			return
		}
		for _, op := range alphabet {
			rec(append(append([]vfC17Op{}, ops...), op))
		}
	}
	rec(nil)
	run.Note("alphabet_size", len(alphabet))
	run.Note("exhaustive_scope", fmt.Sprintf("6-byte file, all histories of length <= %d over %d operations", maxLen, len(alphabet)))
}

type vfC17rd struct{ S, L int64 }

type vfC17Conc struct {
	Size    int
	Workers [][]vfC17rd
	Poison  []vfC17rd
	GC      bool
}

// vfC17concEval runs the read lists of c concurrently on one cache.
func vfC17concEval(c *vfC17Conc) error {
	type rd = vfC17rd
	file := vfFileBytes(c.Size)
	poisoned := map[rd]bool{}
	for _, p := range c.Poison {
		poisoned[p] = true
	}
	rc := NewRangeCache(int64(c.Size), "vf", func(p []byte, off int64) (int, error) {
		if poisoned[rd{off, int64(len(p))}] {
			for i := range p {
				p[i] = 0xBD
			}
			return 0, errVfInjected
		}
		return copy(p, file[off:]), nil
	})
	ctx, cancel := context.WithCancel(context.Background())
	defer cancel()
	if c.GC {
		go func() {
			for ctx.Err() == nil {
				rc.DeleteOldEntries(ctx, -time.Hour)
				time.Sleep(50 * time.Microsecond)
			}
		}()
	}
	var wg sync.WaitGroup
	errs := make(chan error, len(c.Workers))
	for w := range c.Workers {
		wg.Add(1)
		go func(list []rd) {
			defer wg.Done()
			defer func() {
				if r := recover(); r != nil {
					errs <- fmt.Errorf("panic: %v", r)
				}
			}()
			for _, x := range list {
				valid := x.S+x.L <= int64(c.Size)
				got, err := rc.GetRange(context.Background(), x.S, x.L)
				switch {
				case !valid:
					if err == nil {
						errs <- fmt.Errorf("GetRange(%d,%d) past the end of a %d-byte file returned %d bytes", x.S, x.L, c.Size, len(got))
						return
					}
				case err != nil:
					if !poisoned[x] {
						errs <- fmt.Errorf("GetRange(%d,%d) failed (%v) although its own fetch cannot fail", x.S, x.L, err)
						return
					}
				default:
					if !bytes.Equal(got, file[x.S:x.S+x.L]) {
						errs <- fmt.Errorf("GetRange(%d,%d) returned %x, the remote holds %x", x.S, x.L, got, file[x.S:x.S+x.L])
						return
					}
					for k := range got {
						got[k] = 0x5A
					}
				}
			}
		}(c.Workers[w])
	}
	done := make(chan struct{})
	go func() { wg.Wait(); close(done) }()
	select {
	case <-done:
	case <-time.After(60 * time.Second):
		return fmt.Errorf("concurrent readers did not finish within 60s")
	}
	select {
	case err := <-errs:
		return fmt.Errorf("(concurrent) %v", err)
	default:
	}
	return nil
}

// TestVfC17Concurrent: goroutines replay generated read lists on one cache.
// Fetches of "poisoned" ranges fail; a read may fail only if its own range is
// poisoned (a fetch is issued for exactly the requested range) or invalid.
// A fatal runtime error (concurrent map access) kills the process: the driver
// attributes it to the case recorded in last-input.json.
func TestVfC17Concurrent(t *testing.T) {
	run := vfh.Begin("C17", "concurrent")
	defer run.End(t)
	type rd = vfC17rd
	lastInput := filepath.Join(os.Getenv("VERIF_TMP"), "last-input.json")
	os.MkdirAll(filepath.Dir(lastInput), 0o755)
	rapid.Check(t, func(rt *rapid.T) {
		c := &vfC17Conc{Size: rapid.IntRange(8, 256).Draw(rt, "size")}
		c.GC = rapid.Bool().Draw(rt, "gc")
		nw := rapid.IntRange(4, 16).Draw(rt, "workers")
		genRd := func() rd {
			s := rapid.Int64Range(0, int64(c.Size)).Draw(rt, "s")
			l := rapid.Int64Range(0, int64(c.Size)-s+1).Draw(rt, "l")
			return rd{s, l}
		}
		np := rapid.IntRange(0, 4).Draw(rt, "nPoison")
		for i := 0; i < np; i++ {
			c.Poison = append(c.Poison, genRd())
		}
		hot := rapid.IntRange(0, 2).Draw(rt, "hot") == 0 // every worker reads the same few ranges: concurrent cache hits
		var hotSet []rd
		for i := 0; i < 3; i++ {
			hotSet = append(hotSet, genRd())
		}
		for w := 0; w < nw; w++ {
			var l []rd
			n := rapid.IntRange(1, 40).Draw(rt, "n")
			if hot {
				n = rapid.IntRange(100, 400).Draw(rt, "nHot")
			}
			for i := 0; i < n; i++ {
				switch {
				case hot:
					l = append(l, hotSet[rapid.IntRange(0, len(hotSet)-1).Draw(rt, "hi")])
				case len(c.Poison) > 0 && rapid.IntRange(0, 5).Draw(rt, "usePoison") == 0:
					l = append(l, c.Poison[rapid.IntRange(0, len(c.Poison)-1).Draw(rt, "pi")])
				default:
					l = append(l, genRd())
				}
			}
			c.Workers = append(c.Workers, l)
		}
		run.SetLast(c)
		cls := []string{}
		if hot {
			cls = append(cls, "hot-ranges")
		}
		run.Case(c, len(c.Workers) >= 4, map[string]any{"size": c.Size, "workers": len(c.Workers), "poison": c.Poison, "hot": hot}, cls...)
		if b, err := json.Marshal(c); err == nil {
			os.WriteFile(lastInput, b, 0o644)
		}
		if err := vfC17concEval(c); err != nil {
			rt.Fatalf("C17 violated: %v", err)
		}
	})
}

// TestVfReplayC17Concurrent re-runs a concurrent case (schedule dependent: up to 300 times).
func TestVfReplayC17Concurrent(t *testing.T) {
	var c vfC17Conc
	if !vfh.LoadReplay(t, &c) {
		t.Skip("no VERIF_REPLAY")
	}
	for i := 0; i < 300; i++ {
		if err := vfC17concEval(&c); err != nil {
			t.Fatalf("C17 violated: %v", err)
		}
	}
}

func TestVfReplayC17(t *testing.T) {
	var c vfC17Case
	if !vfh.LoadReplay(t, &c) {
		t.Skip("no VERIF_REPLAY")
	}
	var st vfC17Stats
	if err, _ := vfh.Catch(func() error { return vfC17eval(&c, &st) }); err != nil {
		t.Fatalf("C17 violated: %v", err)
	}
}
