package gsfa

// C07 (reader level): GetBeforeUntil slices the newest-first multi-epoch history
// correctly; GetBeforeUntilSlot returns only transactions inside the slot window.

import (
	"context"
	"crypto/sha256"
	"fmt"
	"os"
	"path/filepath"
	"sort"
	"testing"

	"github.com/gagliardetto/solana-go"
	"github.com/ipfs/go-cid"
	"github.com/rpcpool/yellowstone-faithful/gsfa/linkedlog"
	"github.com/rpcpool/yellowstone-faithful/indexes"
	"github.com/rpcpool/yellowstone-faithful/indexmeta"
	"github.com/rpcpool/yellowstone-faithful/ipld/ipldbindcode"
	"github.com/rpcpool/yellowstone-faithful/zz_verif/vfh"
	"pgregory.net/rapid"
)

// vfC07History: per epoch (ascending epoch number) the number of entries of the
// probed address, and where noise entries of a second address are interleaved.
type vfC07History struct {
	Epochs  []uint64 // ascending, distinct
	Counts  []int    // entries of the address per epoch (0 = address absent from that epoch)
	Noise   []int    // entries of another address per epoch
	SlotGap []int    // slot distance between consecutive entries (>= 0; 0 = same slot)
	Place   []int    // per epoch: 0 entries start at slot +10; 1 first entry on the first slot of the epoch; 2 last entry on the last slot of the epoch
}

type vfC07Tx struct {
	Epoch  uint64
	Offset uint64
	Slot   uint64
	Sig    solana.Signature
}

type vfC07World struct {
	dir     string
	readers []*GsfaReader // newest epoch first
	hist    []vfC07Tx     // complete history of the address, newest first
	byLoc   map[[2]uint64]vfC07Tx
	multi   *GsfaReaderMultiepoch
}

func vfC07sig(epoch uint64, i int) solana.Signature {
	h1 := sha256.Sum256([]byte(fmt.Sprintf("vf-c07-%d-%d-a", epoch, i)))
	h2 := sha256.Sum256([]byte(fmt.Sprintf("vf-c07-%d-%d-b", epoch, i)))
	var s solana.Signature
	copy(s[:32], h1[:])
	copy(s[32:], h2[:])
	return s
}

func vfC07build(h *vfC07History) (*vfC07World, error) {
	w := &vfC07World{dir: vfh.TmpDir("c07"), byLoc: map[[2]uint64]vfC07Tx{}}
	addr := vfAddr(1)
	noise := vfAddr(2)
	root := cid.MustParse("bafyreics5uul5lbtxslcigtoa5fkba7qgwu7cyb7ih7z6fzsh4lgfgraau")
	perEpoch := map[uint64][]vfC07Tx{}
	for ei, ep := range h.Epochs {
		d := filepath.Join(w.dir, fmt.Sprintf("gsfa-%d", ep))
		tmp := filepath.Join(w.dir, fmt.Sprintf("tmp-%d", ep))
		os.MkdirAll(tmp, 0o755)
		meta := indexmeta.Meta{}
		meta.AddUint64(indexmeta.MetadataKey_Epoch, ep)
		meta.AddCid(indexmeta.MetadataKey_RootCid, root)
		wr, err := NewGsfaWriter(d, meta, ep, root, indexes.NetworkMainnet, tmp)
		if err != nil {
			return nil, err
		}
		n, nn := h.Counts[ei], h.Noise[ei]
		gapOf := func(i int) uint64 {
			if len(h.SlotGap) > 0 {
				return uint64(h.SlotGap[(ei*7+i)%len(h.SlotGap)])
			}
			return 1
		}
		// slot of the first entry of the address
		first := ep*432000 + 10 + gapOf(0)
		if ei < len(h.Place) && n > 0 {
			switch h.Place[ei] {
			case 1:
				first = ep * 432000
			case 2:
				first = ep*432000 + 431999
				for i := 1; i < n; i++ {
					first -= gapOf(i)
				}
			}
		}
		slot := first
		off := uint64(100)
		for i := 0; i < n || i < nn; i++ {
			if i < nn {
				off += 97
				if err := wr.Push(off, 40, slot, solana.PublicKeySlice{noise}, true, true, false); err != nil {
					return nil, err
				}
			}
			if i < n {
				off += 97
				if i > 0 {
					slot += gapOf(i)
				}
				tx := vfC07Tx{Epoch: ep, Offset: off, Slot: slot, Sig: vfC07sig(ep, i)}
				keys := solana.PublicKeySlice{addr}
				if i%3 == 1 {
					keys = append(keys, noise)
				}
				if err := wr.Push(off, 40, slot, keys, true, i%2 == 0, false); err != nil {
					return nil, err
				}
				perEpoch[ep] = append(perEpoch[ep], tx)
				w.byLoc[[2]uint64{ep, off}] = tx
			}
		}
		if err := wr.Close(); err != nil {
			return nil, err
		}
	}
	// newest epoch first, newest entry first inside an epoch
	eps := append([]uint64{}, h.Epochs...)
	sort.Slice(eps, func(i, j int) bool { return eps[i] > eps[j] })
	for _, ep := range eps {
		r, err := NewGsfaReader(filepath.Join(w.dir, fmt.Sprintf("gsfa-%d", ep)))
		if err != nil {
			return nil, fmt.Errorf("NewGsfaReader epoch %d: %v", ep, err)
		}
		r.SetEpoch(ep)
		w.readers = append(w.readers, r)
		l := perEpoch[ep]
		for i := len(l) - 1; i >= 0; i-- {
			w.hist = append(w.hist, l[i])
		}
	}
	m, err := NewGsfaReaderMultiepoch(w.readers)
	if err != nil {
		return nil, err
	}
	w.multi = m
	return w, nil
}

func (w *vfC07World) close() {
	for _, r := range w.readers {
		r.Close()
	}
	os.RemoveAll(w.dir)
}

func (w *vfC07World) fetcher(epoch uint64, loc linkedlog.OffsetAndSizeAndSlot) (*ipldbindcode.Transaction, error) {
	tx, ok := w.byLoc[[2]uint64{epoch, loc.Offset}]
	if !ok {
		// noise address entries are never fetched for the probed address
		return nil, fmt.Errorf("location (%d,%d) does not belong to the address", epoch, loc.Offset)
	}
	data := append([]byte{1}, tx.Sig[:]...)
	return &ipldbindcode.Transaction{Kind: 0, Slot: int(tx.Slot), Data: ipldbindcode.DataFrame{Kind: 6, Data: data}}, nil
}

func vfC07flatten(w *vfC07World, res EpochToTransactionObjects) ([]solana.Signature, error) {
	var eps []uint64
	for e := range res {
		eps = append(eps, e)
	}
	sort.Slice(eps, func(i, j int) bool { return eps[i] > eps[j] })
	var out []solana.Signature
	for _, e := range eps {
		for _, tx := range res[e] {
			s, err := tx.Signature()
			if err != nil {
				return nil, err
			}
			if tx.Slot/432000 != int(e) {
				return nil, fmt.Errorf("transaction of slot %d listed under epoch %d", tx.Slot, e)
			}
			out = append(out, s)
		}
	}
	return out, nil
}

// vfC07expect is the model: the run of H after `before`, up to `until` inclusive, cut to limit.
func vfC07expect(h []vfC07Tx, limit int, before, until *solana.Signature) []solana.Signature {
	start := 0
	if before != nil {
		start = len(h) // an unknown `before` yields nothing
		for i, tx := range h {
			if tx.Sig == *before {
				start = i + 1
				break
			}
		}
	}
	var out []solana.Signature
	for i := start; i < len(h) && len(out) < limit; i++ {
		out = append(out, h[i].Sig)
		if until != nil && h[i].Sig == *until {
			break
		}
	}
	return out
}

func vfC07checkQuery(w *vfC07World, limit int, bi, ui int) error {
	var before, until *solana.Signature
	if bi >= 0 {
		s := w.hist[bi].Sig
		before = &s
	}
	if ui >= 0 {
		s := w.hist[ui].Sig
		until = &s
	}
	res, err := w.multi.GetBeforeUntil(context.Background(), vfAddr(1), limit, before, until, w.fetcher)
	if err != nil {
		return fmt.Errorf("GetBeforeUntil(limit %d, before #%d, until #%d) failed: %v", limit, bi, ui, err)
	}
	got, err := vfC07flatten(w, res)
	if err != nil {
		return err
	}
	want := vfC07expect(w.hist, limit, before, until)
	if len(got) != len(want) {
		return fmt.Errorf("GetBeforeUntil(limit %d, before #%d, until #%d) over a history of %d: %d entries returned, expected %d", limit, bi, ui, len(w.hist), len(got), len(want))
	}
	for i := range got {
		if got[i] != want[i] {
			return fmt.Errorf("GetBeforeUntil(limit %d, before #%d, until #%d): entry %d is not history entry #%d", limit, bi, ui, i, i)
		}
	}
	return nil
}

func vfC07checkSlotWindow(w *vfC07World, limit int, before, until uint64) error {
	res, err := w.multi.GetBeforeUntilSlot(context.Background(), vfAddr(1), limit, before, until, w.fetcher)
	if err != nil {
		return fmt.Errorf("GetBeforeUntilSlot(limit %d, before %d, until %d) failed: %v", limit, before, until, err)
	}
	var eps []uint64
	for e := range res {
		eps = append(eps, e)
	}
	sort.Slice(eps, func(i, j int) bool { return eps[i] > eps[j] })
	var got []vfC07Tx
	for _, e := range eps {
		for _, tx := range res[e] {
			s, _ := tx.Signature()
			if uint64(tx.Slot) >= before || uint64(tx.Slot) < until {
				return fmt.Errorf("GetBeforeUntilSlot(before %d exclusive, until %d inclusive) returned a transaction of slot %d, outside the window", before, until, tx.Slot)
			}
			got = append(got, vfC07Tx{Sig: s, Slot: uint64(tx.Slot)})
		}
	}
	var want []vfC07Tx
	for _, tx := range w.hist {
		if tx.Slot < before && tx.Slot >= until && len(want) < limit {
			want = append(want, tx)
		}
	}
	if before < until {
		want = nil
	}
	if len(got) != len(want) {
		return fmt.Errorf("GetBeforeUntilSlot(limit %d, before %d, until %d): %d transactions returned, %d lie in the window", limit, before, until, len(got), len(want))
	}
	for i := range got {
		if got[i].Sig != want[i].Sig {
			return fmt.Errorf("GetBeforeUntilSlot(limit %d, before %d, until %d): entry %d is not the expected transaction", limit, before, until, i)
		}
	}
	return nil
}

// vfC07evalHistory checks every (limit, before, until) and every slot window on one history.
func vfC07evalHistory(h *vfC07History, run *vfh.Run, full bool) error {
	w, err := vfC07build(h)
	if err != nil {
		return fmt.Errorf("harness: building indexes: %v", err)
	}
	defer w.close()
	n := len(w.hist)
	spans := 0
	for _, c := range h.Counts {
		if c > 0 {
			spans++
		}
	}
	limits := []int{}
	for l := 1; l <= n+1; l++ {
		limits = append(limits, l)
	}
	if !full && n > 6 {
		limits = []int{1, 2, n / 2, n - 1, n, n + 1}
	}
	for _, limit := range limits {
		for bi := -1; bi < n; bi++ {
			for ui := -1; ui < n; ui++ {
				want := len(vfC07expect(w.hist, limit, sigPtr(w, bi), sigPtr(w, ui)))
				nt := spans >= 2 && want > 0 && want < n
				if run != nil {
					run.Case(fmt.Sprint(h, limit, bi, ui), nt, nil, "query")
				}
				if err := vfC07checkQuery(w, limit, bi, ui); err != nil {
					return err
				}
			}
		}
	}
	// slot windows
	slotSet := map[uint64]bool{}
	for _, tx := range w.hist {
		slotSet[tx.Slot] = true
		slotSet[tx.Slot+1] = true
		if tx.Slot > 0 { // slots are non-negative ints in the archive: no window bound below 0 / above 2^63
			slotSet[tx.Slot-1] = true
		}
	}
	for _, ep := range h.Epochs {
		slotSet[ep*432000] = true
		slotSet[(ep+1)*432000] = true
	}
	var slots []uint64
	for s := range slotSet {
		slots = append(slots, s)
	}
	sort.Slice(slots, func(i, j int) bool { return slots[i] < slots[j] })
	for _, before := range slots {
		for _, until := range slots {
			if until > before {
				continue
			}
			for _, limit := range []int{1, 2, n + 1} {
				if run != nil {
					run.Case(fmt.Sprint(h, "slot", limit, before, until), spans >= 2, nil, "slot-window")
				}
				if err := vfC07checkSlotWindow(w, limit, before, until); err != nil {
					return err
				}
			}
		}
	}
	return nil
}

func sigPtr(w *vfC07World, i int) *solana.Signature {
	if i < 0 {
		return nil
	}
	s := w.hist[i].Sig
	return &s
}

// TestVfC07Exhaustive: up to 3 epochs x 0..4 entries, every (limit, before, until) and slot window.
func TestVfC07Exhaustive(t *testing.T) {
	run := vfh.Begin("C07", "reader-exhaustive")
	defer run.End(t)
	maxEntries := vfh.EnvInt("VERIF_C07_MAX", 4)
	shard, shards := vfh.Shard()
	idx := 0
	stride := vfh.EnvInt("VERIF_C07_STRIDE", 1)
	epochSets := [][]uint64{{5}, {5, 6}, {4, 6}, {3, 4, 5}, {0, 1, 7}}
	for _, eps := range epochSets {
		total := 1
		for range eps {
			total *= maxEntries + 1
		}
		for code := 0; code < total; code++ {
			idx++
			if idx%shards != shard || (idx/shards)%stride != 0 {
				continue
			}
			h := &vfC07History{Epochs: eps, SlotGap: []int{1, 0, 2, 1, 3}}
			x := code
			for range eps {
				h.Counts = append(h.Counts, x%(maxEntries+1))
				h.Noise = append(h.Noise, (x+1)%3)
				// entries in the middle of the epoch, from its first slot on, or up to its last slot
				h.Place = append(h.Place, (code+len(h.Place))%3)
				x /= maxEntries + 1
			}
			run.SetLast(h)
			if err, _ := vfh.Catch(func() error { return vfC07evalHistory(h, run, true) }); err != nil {
				t.Fatalf("C07 violated on history %+v: %v", *h, err)
			}
			run.Class("histories")
		}
	}
	run.Note("exhaustive_scope", fmt.Sprintf("epoch sets %v x 0..%d entries per epoch (1 of every %d), all limits 1..N+1, before/until in {none} u history, all slot windows on history slots +-1 and epoch edges", epochSets, maxEntries, stride))
}

// TestVfC07Random: larger random histories, sampled queries.
func TestVfC07Random(t *testing.T) {
	run := vfh.Begin("C07", "reader-random")
	defer run.End(t)
	for _, p := range vfh.ReplayFiles("C07", "reader-random") {
		var h vfC07History
		if err := vfh.LoadCaseFile(p, &h); err != nil {
			t.Fatalf("regress %s: %v", p, err)
		}
		run.SetLast(&h)
		if err, _ := vfh.Catch(func() error { return vfC07evalHistory(&h, nil, true) }); err != nil {
			t.Fatalf("regression case %s: C07 violated: %v", filepath.Base(p), err)
		}
		run.Class("regress-replayed")
	}
	rapid.Check(t, func(rt *rapid.T) {
		ne := rapid.IntRange(1, 4).Draw(rt, "epochs")
		h := &vfC07History{}
		ep := uint64(rapid.IntRange(0, 5).Draw(rt, "firstEpoch"))
		for i := 0; i < ne; i++ {
			h.Epochs = append(h.Epochs, ep)
			ep += uint64(rapid.IntRange(1, 3).Draw(rt, "epochGap"))
			h.Counts = append(h.Counts, rapid.SampledFrom([]int{0, 1, 3, 9, 30}).Draw(rt, "count"))
			h.Noise = append(h.Noise, rapid.IntRange(0, 5).Draw(rt, "noise"))
			h.Place = append(h.Place, rapid.IntRange(0, 2).Draw(rt, "place"))
		}
		h.SlotGap = rapid.SliceOfN(rapid.IntRange(0, 4), 1, 6).Draw(rt, "gaps")
		run.SetLast(h)
		if err, _ := vfh.Catch(func() error { return vfC07evalHistory(h, run, false) }); err != nil {
			rt.Fatalf("C07 violated: %v", err)
		}
	})
}

func TestVfReplayC07(t *testing.T) {
	var h vfC07History
	if !vfh.LoadReplay(t, &h) {
		t.Skip("no VERIF_REPLAY")
	}
	if err, _ := vfh.Catch(func() error { return vfC07evalHistory(&h, nil, true) }); err != nil {
		t.Fatalf("C07 violated: %v", err)
	}
}
