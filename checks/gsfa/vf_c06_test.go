package gsfa

// C06: the address index returns every indexed transaction of an address,
// newest first. Model = per-address list of pushed entries.

import (
	"context"
	"crypto/sha256"
	"flag"
	"fmt"
	"io"
	"os"
	"path/filepath"
	"runtime"
	"testing"
	"time"

	"github.com/gagliardetto/solana-go"
	"github.com/ipfs/go-cid"
	"github.com/rpcpool/yellowstone-faithful/gsfa/linkedlog"
	"github.com/rpcpool/yellowstone-faithful/indexes"
	"github.com/rpcpool/yellowstone-faithful/indexmeta"
	"github.com/rpcpool/yellowstone-faithful/zz_verif/vfh"
	"k8s.io/klog/v2"
	"pgregory.net/rapid"
)

func init() {
	fs := flag.NewFlagSet("klog", flag.ContinueOnError)
	klog.InitFlags(fs)
	fs.Set("logtostderr", "false")
	fs.Set("alsologtostderr", "false")
	fs.Set("stderrthreshold", "FATAL")
	klog.SetOutput(io.Discard)
}

type vfC06Push struct {
	Addrs   []int // address indexes (0 = the all-zero address)
	Repeat  int   // push this many consecutive transactions with these addresses (>= 1)
	SlotGap int   // slot advance before the first of them
	Flags   int   // bit0 hasMeta, bit1 isSuccess, bit2 isVote
	Yield   int   // after the push: 0 nothing, 1 Gosched, 2 sleep 200us, 3 sleep 2ms, 4 sleep 12ms
}

type vfC06Case struct {
	Pushes    []vfC06Push
	ManyAddrs int // additionally push one transaction to each of this many distinct fresh addresses (periodic flush trigger)
	ManyAt    int // ... after this push index
	Shape     string
}

func vfAddr(i int) solana.PublicKey {
	if i == 0 {
		return solana.PublicKey{}
	}
	h := sha256.Sum256([]byte(fmt.Sprintf("vf-gsfa-address-%d", i)))
	return solana.PublicKeyFromBytes(h[:])
}

type vfEntry struct {
	Offset, Size, Slot uint64
	Flags              uint8
}

func vfC06yield(y int) {
	switch y {
	case 1:
		runtime.Gosched()
	case 2:
		time.Sleep(200 * time.Microsecond)
	case 3:
		time.Sleep(2 * time.Millisecond)
	case 4:
		time.Sleep(12 * time.Millisecond)
	}
}

type vfC06Stats struct {
	maxPerAddr   int
	addrs        int
	periodicLike bool
	total        int
}

func vfC06eval(c *vfC06Case, st *vfC06Stats) error {
	dir := vfh.TmpDir("c06")
	defer os.RemoveAll(dir)
	idxDir := filepath.Join(dir, "gsfa")
	tmp := filepath.Join(dir, "tmp")
	os.MkdirAll(tmp, 0o755)
	root := cid.MustParse("bafyreics5uul5lbtxslcigtoa5fkba7qgwu7cyb7ih7z6fzsh4lgfgraau")
	meta := indexmeta.Meta{}
	meta.AddUint64(indexmeta.MetadataKey_Epoch, 7)
	meta.AddCid(indexmeta.MetadataKey_RootCid, root)
	w, err := NewGsfaWriter(idxDir, meta, 7, root, indexes.NetworkMainnet, tmp)
	if err != nil {
		return fmt.Errorf("NewGsfaWriter: %v", err)
	}
	model := map[solana.PublicKey][]vfEntry{}
	var order []solana.PublicKey
	seq := uint64(0)
	slot := uint64(7 * 432000)
	push := func(keys []solana.PublicKey, flags int) error {
		seq++
		e := vfEntry{Offset: 1000 + seq*131, Size: 50 + seq%977, Slot: slot, Flags: uint8(flags & 7)}
		if err := w.Push(e.Offset, e.Size, e.Slot, append(solana.PublicKeySlice{}, keys...), flags&1 != 0, flags&2 != 0, flags&4 != 0); err != nil {
			return fmt.Errorf("Push #%d: %v", seq, err)
		}
		seen := map[solana.PublicKey]bool{}
		for _, k := range keys {
			if seen[k] {
				continue
			}
			seen[k] = true
			if _, ok := model[k]; !ok {
				order = append(order, k)
			}
			model[k] = append(model[k], e)
		}
		return nil
	}
	for pi, p := range c.Pushes {
		slot += uint64(p.SlotGap)
		var keys []solana.PublicKey
		for _, a := range p.Addrs {
			keys = append(keys, vfAddr(a))
		}
		rep := p.Repeat
		if rep < 1 {
			rep = 1
		}
		for r := 0; r < rep; r++ {
			if err := push(keys, p.Flags); err != nil {
				return err
			}
			if r%3 == 2 {
				slot++
			}
		}
		vfC06yield(p.Yield)
		if c.ManyAddrs > 0 && pi == c.ManyAt {
			for i := 0; i < c.ManyAddrs; i++ {
				slot++
				if err := push([]solana.PublicKey{vfAddr(1_000_000 + i)}, 3); err != nil {
					return err
				}
			}
			// a push at a slot divisible by 500 triggers the periodic partial flush
			slot += 500 - slot%500
			if err := push([]solana.PublicKey{vfAddr(999_999)}, 1); err != nil {
				return err
			}
			st.periodicLike = true
		}
	}
	closed := make(chan error, 1)
	go func() { closed <- w.Close() }()
	select {
	case err := <-closed:
		if err != nil {
			return fmt.Errorf("Close: %v", err)
		}
	case <-time.After(120 * time.Second):
		return fmt.Errorf("Close did not return within 120s")
	}
	r, err := NewGsfaReader(idxDir)
	if err != nil {
		return fmt.Errorf("NewGsfaReader on the closed index: %v", err)
	}
	defer r.Close()
	ctx := context.Background()
	st.addrs = len(order)
	for _, k := range order {
		want := model[k]
		st.total += len(want)
		if len(want) > st.maxPerAddr {
			st.maxPerAddr = len(want)
		}
		got, err := r.Get(ctx, k, 1<<30)
		if err != nil {
			return fmt.Errorf("address %s with %d indexed transactions: Get failed: %v", k, len(want), err)
		}
		if len(got) != len(want) {
			return fmt.Errorf("address %s: %d transactions indexed, Get returned %d", k, len(want), len(got))
		}
		for i := range got {
			w := want[len(want)-1-i]
			g := got[i]
			if g.Offset != w.Offset || g.Size != w.Size || g.Slot != w.Slot || uint8(g.Flags) != w.Flags {
				return fmt.Errorf("address %s (%d transactions): entry %d (newest first) is {off %d size %d slot %d flags %d}, expected {off %d size %d slot %d flags %d}", k, len(want), i, g.Offset, g.Size, g.Slot, g.Flags, w.Offset, w.Size, w.Slot, w.Flags)
			}
		}
		// limit cuts a prefix
		for _, lim := range []int{1, len(want) / 2, len(want) - 1} {
			if lim < 1 {
				continue
			}
			part, err := r.Get(ctx, k, lim)
			if err != nil || len(part) != lim {
				return fmt.Errorf("address %s: Get(limit %d) returned %d entries, err %v", k, lim, len(part), err)
			}
			for i := range part {
				if part[i] != got[i] {
					return fmt.Errorf("address %s: Get(limit %d) entry %d is not the prefix of the full history", k, lim, i)
				}
			}
		}
	}
	// an address that never appeared
	if got, err := r.Get(ctx, vfAddr(424242), 10); err == nil && len(got) > 0 {
		return fmt.Errorf("address that was never indexed returned %d entries", len(got))
	}
	return nil
}

var _ = linkedlog.OffsetAndSizeAndSlot{}

func vfC06classes(c *vfC06Case, st *vfC06Stats, batch int) (bool, []string) {
	cls := []string{"shape:" + c.Shape}
	if st.maxPerAddr >= batch {
		cls = append(cls, "full-batch")
	}
	if st.maxPerAddr > batch {
		cls = append(cls, "more-than-one-batch")
	}
	if st.periodicLike {
		cls = append(cls, "periodic-flush")
	}
	if st.addrs >= 2 {
		cls = append(cls, "interleaved")
	}
	return st.maxPerAddr > batch || st.periodicLike, cls
}

// TestVfC06Real: real constants, per-address counts around the batch size.
func TestVfC06Real(t *testing.T) {
	run := vfh.Begin("C06", "real-constants")
	defer run.End(t)
	run.Require("full-batch", "more-than-one-batch", "interleaved")
	for _, p := range vfh.ReplayFiles("C06", "real-constants") {
		var c vfC06Case
		if err := vfh.LoadCaseFile(p, &c); err != nil {
			t.Fatalf("regress %s: %v", p, err)
		}
		run.SetLast(&c)
		var st vfC06Stats
		if err, _ := vfh.Catch(func() error { return vfC06eval(&c, &st) }); err != nil {
			t.Fatalf("regression case %s: C06 violated: %v", filepath.Base(p), err)
		}
		run.Class("regress-replayed")
	}
	counts := []int{1, 2, 999, 1000, 1001, 1999, 2000, 2001, 2500, 3000}
	rapid.Check(t, func(rt *rapid.T) {
		c := &vfC06Case{Shape: rapid.SampledFrom([]string{"single", "interleaved", "interleaved", "shared-tx"}).Draw(rt, "shape")}
		na := 1
		if c.Shape != "single" {
			na = rapid.IntRange(2, 8).Draw(rt, "nAddr")
		}
		zero := rapid.IntRange(0, 4).Draw(rt, "zeroAddr") == 0
		remaining := make([]int, na)
		for i := range remaining {
			remaining[i] = rapid.SampledFrom(counts).Draw(rt, "count")
		}
		// interleave in chunks
		for {
			left := 0
			for _, r := range remaining {
				left += r
			}
			if left == 0 {
				break
			}
			a := rapid.IntRange(0, na-1).Draw(rt, "which")
			if remaining[a] == 0 {
				for i := range remaining {
					if remaining[i] > 0 {
						a = i
						break
					}
				}
			}
			n := rapid.SampledFrom([]int{1, 1, 7, 400, 1000, 3000}).Draw(rt, "chunk")
			if n > remaining[a] {
				n = remaining[a]
			}
			remaining[a] -= n
			addr := a + 1
			if zero && a == 0 {
				addr = 0
			}
			p := vfC06Push{Addrs: []int{addr}, Repeat: n, SlotGap: rapid.IntRange(0, 3).Draw(rt, "gap"), Flags: rapid.IntRange(0, 7).Draw(rt, "flags"), Yield: rapid.SampledFrom([]int{0, 0, 1, 2, 3}).Draw(rt, "yield")}
			if c.Shape == "shared-tx" && rapid.Bool().Draw(rt, "shared") {
				b := (a + 1) % na
				m := n
				if remaining[b] < m {
					m = remaining[b]
				}
				if m > 0 {
					p.Repeat = m
					remaining[a] += n - m
					remaining[b] -= m
					p.Addrs = append(p.Addrs, b+1)
				}
			}
			c.Pushes = append(c.Pushes, p)
		}
		if vfh.Thorough() && rapid.IntRange(0, 30).Draw(rt, "many") == 0 {
			c.ManyAddrs = 100_050
			c.ManyAt = rapid.IntRange(0, len(c.Pushes)-1).Draw(rt, "manyAt")
		}
		run.SetLast(c)
		var st vfC06Stats
		err, panicked := vfh.Catch(func() error { return vfC06eval(c, &st) })
		nt, cls := vfC06classes(c, &st, itemsPerBatch)
		run.Case(c, nt, map[string]any{"shape": c.Shape, "pushes": len(c.Pushes), "addresses": st.addrs, "maxPerAddress": st.maxPerAddr, "total": st.total, "manyAddrs": c.ManyAddrs}, cls...)
		if err != nil {
			if panicked {
				rt.Fatalf("C06 violated: panic: %v", err)
			}
			rt.Fatalf("C06 violated: %v", err)
		}
	})
}

// TestVfC06Shrunk runs against a build in which the batch size, parked-buffer
// count, periodic-flush thresholds and poll interval were shrunk (AST rewrite
// of gsfa-write.go); with the real constants it still runs, only less densely.
func TestVfC06Shrunk(t *testing.T) {
	run := vfh.Begin("C06", "shrunk-constants")
	defer run.End(t)
	run.Note("itemsPerBatch_in_this_build", itemsPerBatch)
	if itemsPerBatch <= 16 {
		run.Require("full-batch", "more-than-one-batch", "interleaved")
	}
	for _, p := range vfh.ReplayFiles("C06", "shrunk-constants") {
		var c vfC06Case
		if err := vfh.LoadCaseFile(p, &c); err != nil {
			t.Fatalf("regress %s: %v", p, err)
		}
		run.SetLast(&c)
		var st vfC06Stats
		if err, _ := vfh.Catch(func() error { return vfC06eval(&c, &st) }); err != nil {
			t.Fatalf("regression case %s: C06 violated: %v", filepath.Base(p), err)
		}
		run.Class("regress-replayed")
	}
	rapid.Check(t, func(rt *rapid.T) {
		c := &vfC06Case{Shape: "state-machine"}
		na := rapid.IntRange(1, 9).Draw(rt, "nAddr")
		n := rapid.IntRange(1, 40).Draw(rt, "nPush")
		for i := 0; i < n; i++ {
			p := vfC06Push{}
			p.Addrs = rapid.SliceOfNDistinct(rapid.IntRange(0, na), 1, 3, rapid.ID[int]).Draw(rt, "addrs")
			p.Repeat = rapid.SampledFrom([]int{1, 1, 1, 2, 3, 4, 5, 9}).Draw(rt, "repeat")
			p.SlotGap = rapid.IntRange(0, 6).Draw(rt, "gap")
			p.Flags = rapid.IntRange(0, 7).Draw(rt, "flags")
			p.Yield = rapid.SampledFrom([]int{0, 0, 0, 1, 2, 3, 4}).Draw(rt, "yield")
			c.Pushes = append(c.Pushes, p)
		}
		run.SetLast(c)
		var st vfC06Stats
		err, panicked := vfh.Catch(func() error { return vfC06eval(c, &st) })
		nt, cls := vfC06classes(c, &st, itemsPerBatch)
		run.Case(c, nt, map[string]any{"pushes": len(c.Pushes), "addresses": st.addrs, "maxPerAddress": st.maxPerAddr, "total": st.total, "first": c.Pushes[:min(3, len(c.Pushes))]}, cls...)
		if err != nil {
			if panicked {
				rt.Fatalf("C06 violated: panic: %v", err)
			}
			rt.Fatalf("C06 violated: %v", err)
		}
	})
}

func TestVfReplayC06(t *testing.T) {
	var c vfC06Case
	if !vfh.LoadReplay(t, &c) {
		t.Skip("no VERIF_REPLAY")
	}
	var st vfC06Stats
	if err, _ := vfh.Catch(func() error { return vfC06eval(&c, &st) }); err != nil {
		t.Fatalf("C06 violated: %v", err)
	}
}
