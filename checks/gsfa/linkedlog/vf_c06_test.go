package linkedlog

// C06 (record level): LinkedLog.Put / ReadWithSize round trip for every
// serialized record length, in particular on both sides of the varint-width
// boundaries (total length 127..130 and 16383..16386), reached by directed search.

import (
	"encoding/binary"
	"fmt"
	"os"
	"path/filepath"
	"testing"

	"github.com/gagliardetto/solana-go"
	"github.com/rpcpool/yellowstone-faithful/indexes"
	"github.com/rpcpool/yellowstone-faithful/zz_verif/vfh"
	"pgregory.net/rapid"
)

type vfLLRecord struct {
	Target int    // wanted total record length (0 = whatever Seed/N give)
	N      int    // number of entries (starting point of the search)
	Seed   uint64 // entry values are derived from it
	Wide   bool   // offset, size and slot sit on the varint-width boundaries (1..10 bytes each, up to MaxUint64)
}

type vfLLCase struct {
	Records []vfLLRecord
}

// vfLLwideValue returns a value on a varint-width boundary: 2^(7k)-1, 2^(7k), 2^63 or MaxUint64.
func vfLLwideValue(r uint64) uint64 {
	k := r % 12
	switch {
	case k == 10:
		return 1 << 63
	case k == 11:
		return ^uint64(0)
	case k == 9:
		return 1<<63 - (r>>8)%2
	}
	return uint64(1)<<(7*(k+1)) - (r>>8)%2
}

func vfLLwideEntries(seed uint64, n int) []*OffsetAndSizeAndSlot {
	x := seed
	next := func() uint64 {
		x += 0x9e3779b97f4a7c15
		z := x
		z = (z ^ (z >> 30)) * 0xbf58476d1ce4e5b9
		z = (z ^ (z >> 27)) * 0x94d049bb133111eb
		return z ^ (z >> 31)
	}
	out := make([]*OffsetAndSizeAndSlot, n)
	for i := range out {
		e := &OffsetAndSizeAndSlot{Offset: vfLLwideValue(next()), Size: vfLLwideValue(next()), Slot: vfLLwideValue(next()), Flags: Bitmap(next() & 7)}
		if next()%3 == 0 { // all three fields at the widest encoding
			e.Offset, e.Size, e.Slot = ^uint64(0)-next()%2, 1<<63+next()%2, ^uint64(0)>>(next()%2)
			if e.Slot < 1<<63 {
				e.Slot = 1 << 63
			}
		}
		out[i] = e
	}
	return out
}

func vfLLentries(seed uint64, n int, compressible bool) []*OffsetAndSizeAndSlot {
	x := seed
	next := func() uint64 {
		x += 0x9e3779b97f4a7c15
		z := x
		z = (z ^ (z >> 30)) * 0xbf58476d1ce4e5b9
		z = (z ^ (z >> 27)) * 0x94d049bb133111eb
		return z ^ (z >> 31)
	}
	out := make([]*OffsetAndSizeAndSlot, n)
	for i := range out {
		e := &OffsetAndSizeAndSlot{}
		if compressible {
			e.Offset = 1000 + uint64(i)*300
			e.Size = 300
			e.Slot = 432000 + uint64(i/3)
		} else {
			e.Offset = next() >> 16
			e.Size = next() >> 40
			e.Slot = next() >> 30
		}
		e.Flags = Bitmap(next() & 7)
		out[i] = e
	}
	return out
}

func vfLLrecordLen(entries []*OffsetAndSizeAndSlot) int {
	// Put stores the entries newest first: size the record on the reversed order
	rev := make([]*OffsetAndSizeAndSlot, len(entries))
	for i, e := range entries {
		rev[len(entries)-1-i] = e
	}
	p, err := createIndexesPayload(rev)
	if err != nil {
		panic(err)
	}
	payloadLen := uint64(len(p)) + 9
	return len(encodeUvarint(payloadLen)) + int(payloadLen)
}

// vfLLsearch finds entries whose record has exactly the target total length.
func vfLLsearch(r vfLLRecord) ([]*OffsetAndSizeAndSlot, bool) {
	if r.Target == 0 {
		n := r.N
		if n < 1 {
			n = 1
		}
		if r.Wide {
			return vfLLwideEntries(r.Seed, n), true
		}
		return vfLLentries(r.Seed, n, r.Seed%2 == 0), true
	}
	for attempt := uint64(0); attempt < 80; attempt++ {
		compressible := attempt%2 == 0 && r.Target < 1000
		// estimate the count from the bytes per entry of a probe, then walk towards the target
		probe := vfLLentries(r.Seed+attempt, 64, compressible)
		per := float64(vfLLrecordLen(probe)-12) / 64
		if per < 0.5 {
			per = 0.5
		}
		n := int(float64(r.Target-12) / per)
		if n < 1 {
			n = 1
		}
		seen := map[int]bool{}
		for iter := 0; iter < 10 && !seen[n]; iter++ {
			seen[n] = true
			e := vfLLentries(r.Seed+attempt, n, compressible)
			l := vfLLrecordLen(e)
			if l == r.Target {
				return e, true
			}
			d := int(float64(r.Target-l) / per)
			if d == 0 {
				if l < r.Target {
					d = 1
				} else {
					d = -1
				}
			}
			n += d
			if n < 1 {
				n = 1
			}
		}
	}
	return nil, false
}

func vfLLeval(c *vfLLCase, reached map[int]int) error {
	dir := vfh.TmpDir("c06ll")
	defer os.RemoveAll(dir)
	ll, err := NewLinkedLog(filepath.Join(dir, "linked-log"))
	if err != nil {
		return err
	}
	defer ll.Close()
	key := solana.PublicKey{1, 2, 3}
	type rec struct {
		entries []OffsetAndSizeAndSlot // as given (oldest first)
		off     uint64
		size    uint32
		prev    indexes.OffsetAndSize
	}
	var recs []rec
	var last indexes.OffsetAndSize
	for _, r := range c.Records {
		entries, ok := vfLLsearch(r)
		if !ok {
			continue // target length not reachable with this seed
		}
		given := make([]OffsetAndSizeAndSlot, len(entries))
		for i, e := range entries {
			given[i] = *e
		}
		total := vfLLrecordLen(entries) // Put reverses the slice in place: measure before
		var gotOff uint64
		var gotLn uint32
		prev := last
		_, err := ll.Put(
			func(pk solana.PublicKey) (indexes.OffsetAndSize, error) { return prev, nil },
			func(pk solana.PublicKey, offset uint64, ln uint32) error { gotOff, gotLn = offset, ln; return nil },
			KeyToOffsetAndSizeAndBlocktime{Key: key, Values: entries},
		)
		if err != nil {
			return fmt.Errorf("Put of a %d-entry record: %v", len(given), err)
		}
		if int(gotLn) != total {
			return fmt.Errorf("harness: record length %d, predicted %d", gotLn, total)
		}
		reached[total]++
		recs = append(recs, rec{entries: given, off: gotOff, size: gotLn, prev: prev})
		last = indexes.OffsetAndSize{Offset: gotOff, Size: uint64(gotLn)}
	}
	if err := ll.Flush(); err != nil {
		return err
	}
	for i := len(recs) - 1; i >= 0; i-- {
		r := recs[i]
		got, prev, err := ll.ReadWithSize(r.off, uint64(r.size))
		if err != nil {
			return fmt.Errorf("record %d of total length %d (%d entries): ReadWithSize failed: %v", i, r.size, len(r.entries), err)
		}
		if prev != r.prev {
			return fmt.Errorf("record %d of total length %d: previous pointer %+v, written %+v", i, r.size, prev, r.prev)
		}
		if len(got) != len(r.entries) {
			return fmt.Errorf("record %d of total length %d: %d entries read, %d written", i, r.size, len(got), len(r.entries))
		}
		for j := range got {
			if got[j] != r.entries[len(r.entries)-1-j] {
				return fmt.Errorf("record %d of total length %d: entry %d (newest first) differs from what was written", i, r.size, j)
			}
		}
		// Read() (length taken from the file) must agree too
		got2, prev2, err := ll.Read(r.off)
		if err == nil {
			if prev2 != r.prev || len(got2) != len(r.entries) {
				return fmt.Errorf("record %d of total length %d: Read() disagrees with what was written", i, r.size)
			}
		}
	}
	return nil
}

var vfLLTargets = []int{126, 127, 128, 130, 131, 16382, 16383, 16384, 16385, 16387, 16388}

func TestVfC06LinkedLog(t *testing.T) {
	run := vfh.Begin("C06", "linkedlog-records")
	defer run.End(t)
	// 129 and 16386 cannot occur: a payload of 128 (16384) bytes needs a 2 (3) byte prefix
	run.Require("len:127", "len:128", "len:130", "len:16383", "len:16384", "len:16385", "len:16387", "wide-varint-fields")
	for _, p := range vfh.ReplayFiles("C06", "linkedlog-records") {
		var c vfLLCase
		if err := vfh.LoadCaseFile(p, &c); err != nil {
			t.Fatalf("regress %s: %v", p, err)
		}
		run.SetLast(&c)
		if err, _ := vfh.Catch(func() error { return vfLLeval(&c, map[int]int{}) }); err != nil {
			t.Fatalf("regression case %s: C06 violated: %v", filepath.Base(p), err)
		}
		run.Class("regress-replayed")
	}
	rapid.Check(t, func(rt *rapid.T) {
		c := &vfLLCase{}
		n := rapid.IntRange(1, 6).Draw(rt, "records")
		for i := 0; i < n; i++ {
			var r vfLLRecord
			r.Seed = rapid.Uint64().Draw(rt, "seed")
			if rapid.IntRange(0, 2).Draw(rt, "directed") > 0 {
				r.Target = rapid.SampledFrom(vfLLTargets).Draw(rt, "target")
			} else {
				r.N = rapid.OneOf(rapid.IntRange(1, 30), rapid.IntRange(1, 1200)).Draw(rt, "n")
				r.Wide = rapid.IntRange(0, 2).Draw(rt, "wide") == 0
			}
			c.Records = append(c.Records, r)
		}
		run.SetLast(c)
		reached := map[int]int{}
		err, panicked := vfh.Catch(func() error { return vfLLeval(c, reached) })
		var cls []string
		boundary := false
		for l := range reached {
			for _, tg := range vfLLTargets {
				if l == tg {
					cls = append(cls, fmt.Sprintf("len:%d", l))
					boundary = true
				}
			}
		}
		for _, r := range c.Records {
			if r.Wide && r.Target == 0 {
				cls = append(cls, "wide-varint-fields")
				boundary = true
				break
			}
		}
		run.Case(c, boundary, map[string]any{"records": c.Records, "lengths": fmt.Sprint(reached)}, cls...)
		if err != nil {
			if panicked {
				rt.Fatalf("C06 violated: panic: %v", err)
			}
			rt.Fatalf("C06 violated: %v", err)
		}
	})
}

var _ = binary.MaxVarintLen64

func TestVfReplayC06LinkedLog(t *testing.T) {
	var c vfLLCase
	if !vfh.LoadReplay(t, &c) {
		t.Skip("no VERIF_REPLAY")
	}
	if err, _ := vfh.Catch(func() error { return vfLLeval(&c, map[int]int{}) }); err != nil {
		t.Fatalf("C06 violated: %v", err)
	}
}
