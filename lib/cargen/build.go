package cargen

import (
	"bytes"
	"crypto/sha256"
	"encoding/binary"
	"encoding/hex"
	"fmt"
	"hash/crc64"
	"hash/fnv"
	"os"

	"github.com/gagliardetto/solana-go"
	"github.com/ipfs/go-cid"
	carv1 "github.com/ipld/go-car"
	"github.com/ipld/go-ipld-prime"
	"github.com/ipld/go-ipld-prime/codec/dagcbor"
	"github.com/ipld/go-ipld-prime/datamodel"
	cidlink "github.com/ipld/go-ipld-prime/linking/cid"
	"github.com/ipld/go-ipld-prime/schema"
	"github.com/klauspost/compress/zstd"
	mh "github.com/multiformats/go-multihash"
	"github.com/rpcpool/yellowstone-faithful/ipld/ipldbindcode"
	"github.com/rpcpool/yellowstone-faithful/third_party/solana_proto/confirmed_block"
	"google.golang.org/protobuf/proto"
)

// Kinds as in iplddecoders (not imported to keep the oracle independent).
const (
	KindTransaction = 0
	KindEntry       = 1
	KindBlock       = 2
	KindSubset      = 3
	KindEpoch       = 4
	KindRewards     = 5
	KindDataFrame   = 6
)

var DummyCID = cid.MustParse("bafkqaaa")

// Obj is one CAR section with its true position.
type Obj struct {
	Cid        cid.Cid
	Kind       int
	Offset     uint64 // byte offset of the section (its length varint) in the CAR file
	SectionLen uint64 // varint + cid + payload
	Data       []byte // payload (dag-cbor node)
	BlockIdx   int    // index of the block this object belongs to (-1: subset/epoch)
}

type TxInfo struct {
	Spec       *TxSpec
	Sig        solana.Signature
	Sigs       []solana.Signature
	Cid        cid.Cid
	ObjIdx     int
	TxBytes    []byte // marshalled transaction
	MetaRaw    []byte // uncompressed metadata protobuf (nil if the tx has none)
	MetaZ      []byte // compressed metadata as stored
	Slot       uint64
	Pos        int
	HasPos     bool
	Vote       bool
	SimpleVote bool // by the reference definition (see buildTx)
	Failed     bool
	Fee        uint64
	Static     []solana.PublicKey
	LoadedW    []solana.PublicKey
	LoadedR    []solana.PublicKey
	MetaFrames int
	BlockIdx   int
	Blocktime  int64
}

// Meta returns the parsed metadata (nil when the transaction has none).
func (t *TxInfo) Meta() *confirmed_block.TransactionStatusMeta {
	if t.MetaRaw == nil {
		return nil
	}
	m := &confirmed_block.TransactionStatusMeta{}
	if err := proto.Unmarshal(t.MetaRaw, m); err != nil {
		panic(err)
	}
	return m
}

// Mentions reports whether the transaction mentions the account (static or loaded).
func (t *TxInfo) Mentions(k solana.PublicKey) bool {
	for _, a := range t.Static {
		if a == k {
			return true
		}
	}
	for _, a := range t.LoadedW {
		if a == k {
			return true
		}
	}
	for _, a := range t.LoadedR {
		if a == k {
			return true
		}
	}
	return false
}

type EntryInfo struct {
	Cid  cid.Cid
	Hash []byte
	Txs  []*TxInfo
}

type BlockInfo struct {
	Idx        int
	Slot       uint64
	Parent     uint64
	Blocktime  int64
	Height     *uint64
	Cid        cid.Cid
	ObjIdx     int // index of the block object in Objects
	FirstObj   int // index of the first object belonging to this block (its first child)
	Entries    []EntryInfo
	Txs        []*TxInfo // in position order
	Blockhash  solana.Hash
	HasEntries bool
	RewardsRaw []byte // uncompressed rewards protobuf (nil when the block has none)
	RewardsCid cid.Cid
}

type Epoch struct {
	Spec      *EpochSpec
	Num       uint64
	Root      cid.Cid
	HeaderLen uint64
	Car       []byte
	Objects   []Obj
	Blocks    []*BlockInfo
	Txs       []*TxInfo
	SlotIndex map[uint64]*BlockInfo
	Varint    [4]int // number of sections whose length varint is 1,2,3 bytes wide (index = width)
}

// ---------------------------------------------------------------------------
// deterministic derivation from drawn seeds

type prng struct{ x uint64 }

func (p *prng) next() uint64 {
	p.x += 0x9e3779b97f4a7c15
	z := p.x
	z = (z ^ (z >> 30)) * 0xbf58476d1ce4e5b9
	z = (z ^ (z >> 27)) * 0x94d049bb133111eb
	return z ^ (z >> 31)
}
func (p *prng) intn(n int) int { return int(p.next() % uint64(n)) }
func (p *prng) bytes(n int) []byte {
	out := make([]byte, n)
	for i := 0; i < n; i += 8 {
		var b [8]byte
		binary.LittleEndian.PutUint64(b[:], p.next())
		copy(out[i:], b[:])
	}
	return out
}

// Acct returns account i of the small account universe shared by all epochs.
func Acct(i int) solana.PublicKey {
	h := sha256.Sum256([]byte(fmt.Sprintf("vf-universe-account-%d", i)))
	return solana.PublicKeyFromBytes(h[:])
}

func derivedKey(tag string, a, b uint64) solana.PublicKey {
	h := sha256.Sum256([]byte(fmt.Sprintf("%s-%d-%d", tag, a, b)))
	return solana.PublicKeyFromBytes(h[:])
}

// ---------------------------------------------------------------------------
// node encoding with the reference encoder

func encode(v any, p schema.TypedPrototype) []byte {
	b, err := ipld.Marshal(dagcbor.Encode, v, p.Type())
	if err != nil {
		panic(fmt.Errorf("cargen: reference encoder failed: %w", err))
	}
	return b
}

func cidOf(data []byte) cid.Cid {
	sum, err := mh.Sum(data, mh.SHA2_256, -1)
	if err != nil {
		panic(err)
	}
	return cid.NewCidV1(cid.DagCBOR, sum)
}

func pp(v int) **int {
	p := &v
	return &p
}

func nullInt() **int {
	var p *int
	return &p
}

func link(c cid.Cid) datamodel.Link { return cidlink.Link{Cid: c} }

var crcTable = crc64.MakeTable(crc64.ISO)

func checksum(fnvHash bool, data []byte) uint64 {
	if fnvHash {
		h := fnv.New64a()
		h.Write(data)
		return h.Sum64()
	}
	return crc64.Checksum(data, crcTable)
}

var zenc, _ = zstd.NewWriter(nil, zstd.WithEncoderLevel(zstd.SpeedDefault), zstd.WithEncoderConcurrency(1))

func Compress(b []byte) []byte { return zenc.EncodeAll(b, nil) }

// FrameOpts controls how a payload is cut into data frames.
type FrameOpts struct {
	Frames   int
	Fanout   int
	Fnv      bool
	NoHash   bool // omit hash/index/total (oldest archives; single frame only)
	NextNull bool // encode an absent next as null
	LeafNext int  // 0 absent, 1 null, 2 empty list - for non-first leaf frames
}

// SplitFrames cuts payload into o.Frames frames laid out as in the schema
// comment (head h links h+1..h+F; h+F is the next head). It returns the first
// frame (embedded in the parent node) and the continuation frames as encoded
// nodes in CAR order (children before parents: descending index).
func SplitFrames(payload []byte, o FrameOpts) (first ipldbindcode.DataFrame, rest [][]byte, restCids []cid.Cid) {
	n := o.Frames
	if n < 1 {
		n = 1
	}
	if o.Fanout < 1 {
		o.Fanout = 1
	}
	chunk := func(i int) []byte {
		lo := len(payload) * i / n
		hi := len(payload) * (i + 1) / n
		return payload[lo:hi]
	}
	sum := int(checksum(o.Fnv, payload))
	cids := make([]cid.Cid, n)
	mk := func(i int) ipldbindcode.DataFrame {
		f := ipldbindcode.DataFrame{Kind: KindDataFrame, Data: append([]byte{}, chunk(i)...)}
		if o.NoHash {
			f.Hash, f.Index, f.Total = nullInt(), nullInt(), nullInt()
		} else {
			f.Hash = pp(sum)
			f.Index = pp(i)
			f.Total = pp(n)
		}
		isHead := i%o.Fanout == 0
		if isHead && i+1 < n {
			var l ipldbindcode.List__Link
			for j := i + 1; j <= i+o.Fanout && j < n; j++ {
				l = append(l, link(cids[j]))
			}
			pl := &l
			f.Next = &pl
		} else {
			mode := o.LeafNext
			if i == 0 {
				mode = 0
				if o.NextNull {
					mode = 1
				}
			}
			switch mode {
			case 1:
				var pl *ipldbindcode.List__Link
				f.Next = &pl
			case 2:
				l := ipldbindcode.List__Link{}
				pl := &l
				f.Next = &pl
			}
		}
		return f
	}
	for i := n - 1; i >= 1; i-- {
		f := mk(i)
		raw := encode(&f, ipldbindcode.Prototypes.DataFrame)
		cids[i] = cidOf(raw)
		rest = append(rest, raw)
		restCids = append(restCids, cids[i])
	}
	first = mk(0)
	return
}

// ---------------------------------------------------------------------------

type builder struct {
	spec    *EpochSpec
	ep      *Epoch
	rng     prng
	secs    [][]byte // encoded sections (varint+cid+data) in file order
	curBlk  int
	prevEnd solana.Hash
}

func (b *builder) add(kind int, c cid.Cid, data []byte) int {
	cb := c.Bytes()
	var lb [binary.MaxVarintLen64]byte
	n := binary.PutUvarint(lb[:], uint64(len(cb)+len(data)))
	sec := make([]byte, 0, n+len(cb)+len(data))
	sec = append(sec, lb[:n]...)
	sec = append(sec, cb...)
	sec = append(sec, data...)
	b.secs = append(b.secs, sec)
	b.ep.Objects = append(b.ep.Objects, Obj{Cid: c, Kind: kind, SectionLen: uint64(len(sec)), Data: data, BlockIdx: b.curBlk})
	if n <= 3 {
		b.ep.Varint[n]++
	}
	return len(b.ep.Objects) - 1
}

func (b *builder) frameOpts(frames, fanout int) FrameOpts {
	return FrameOpts{Frames: frames, Fanout: fanout, Fnv: b.spec.FnvHash, NoHash: b.spec.NoHash, NextNull: b.spec.NextNull, LeafNext: b.rng.intn(3)}
}

func (b *builder) buildTx(ts *TxSpec, slot uint64, pos int, blkIdx int, blocktime int64) *TxInfo {
	r := prng{x: uint64(ts.Seed)<<32 ^ b.spec.Seed ^ slot*0x9e37 ^ uint64(pos)}
	ti := &TxInfo{Spec: ts, Slot: slot, Pos: pos, HasPos: b.spec.TxIndex, Vote: ts.Vote, Failed: ts.Failed, BlockIdx: blkIdx, Blocktime: blocktime}
	nsig := ts.NSigs
	if nsig < 1 {
		nsig = 1
	}
	var tx solana.Transaction
	for i := 0; i < nsig; i++ {
		h1 := sha256.Sum256([]byte(fmt.Sprintf("vf-sig-%d-%d-%d-%d-%d-a", b.spec.Seed, b.spec.Epoch, slot, pos, i)))
		h2 := sha256.Sum256([]byte(fmt.Sprintf("vf-sig-%d-%d-%d-%d-%d-b", b.spec.Seed, b.spec.Epoch, slot, pos, i)))
		var s solana.Signature
		copy(s[:32], h1[:])
		copy(s[32:], h2[:])
		tx.Signatures = append(tx.Signatures, s)
	}
	ti.Sigs = tx.Signatures
	ti.Sig = tx.Signatures[0]
	var keys []solana.PublicKey
	for i := 0; i < nsig; i++ {
		keys = append(keys, derivedKey("vf-signer", uint64(ts.Seed), uint64(i)+slot<<8))
	}
	for _, a := range ts.Accounts {
		keys = append(keys, Acct(a))
	}
	msg := &tx.Message
	nprog := 1
	if ts.Vote {
		keys = append(keys, solana.VoteProgramID)
		var accs []uint16
		for i := 0; i < len(keys)-1 && i < 3; i++ {
			accs = append(accs, uint16(i))
		}
		msg.Instructions = []solana.CompiledInstruction{{ProgramIDIndex: uint16(len(keys) - 1), Accounts: accs, Data: r.bytes(8 + r.intn(40))}}
	} else {
		keys = append(keys, solana.SystemProgramID)
		ninst := 1 + r.intn(2)
		if ts.NInst > 0 {
			ninst = ts.NInst
		}
		if ninst >= 2 {
			keys = append(keys, solana.MemoProgramID)
			nprog = 2
		}
		if ts.VoteAt > 0 {
			keys = append(keys, solana.VoteProgramID)
			nprog++
		}
		for i := 0; i < ninst; i++ {
			var accs []uint16
			for j := 0; j < len(keys)-nprog && j < 1+r.intn(3); j++ {
				accs = append(accs, uint16(j))
			}
			prog := len(keys) - nprog + i%2 // System, Memo, System, ...
			if ts.VoteAt > 0 && i == ts.VoteAt-1 {
				prog = len(keys) - 1
			}
			msg.Instructions = append(msg.Instructions, solana.CompiledInstruction{ProgramIDIndex: uint16(prog), Accounts: accs, Data: r.bytes(r.intn(48))})
		}
	}
	msg.AccountKeys = keys
	msg.Header = solana.MessageHeader{NumRequiredSignatures: uint8(nsig), NumReadonlyUnsignedAccounts: uint8(nprog)}
	copy(msg.RecentBlockhash[:], r.bytes(32))
	if ts.V0 && !ts.Vote {
		msg.SetVersion(solana.MessageVersionV0)
		if len(ts.LoadedW)+len(ts.LoadedR) > 0 {
			lk := solana.MessageAddressTableLookup{AccountKey: derivedKey("vf-table", uint64(ts.Seed), slot)}
			for i := range ts.LoadedW {
				lk.WritableIndexes = append(lk.WritableIndexes, uint8(i))
				ti.LoadedW = append(ti.LoadedW, Acct(ts.LoadedW[i]))
			}
			for i := range ts.LoadedR {
				lk.ReadonlyIndexes = append(lk.ReadonlyIndexes, uint8(100+i))
				ti.LoadedR = append(ti.LoadedR, Acct(ts.LoadedR[i]))
			}
			msg.AddAddressTableLookup(lk)
		}
	}
	ti.Static = keys
	// reference definition of a simple vote transaction: 1-2 signatures, legacy message, exactly one instruction, which invokes the Vote program
	ti.SimpleVote = nsig < 3 && !(ts.V0 && !ts.Vote) && len(msg.Instructions) == 1 && keys[msg.Instructions[0].ProgramIDIndex] == solana.VoteProgramID
	raw, err := tx.MarshalBinary()
	if err != nil {
		panic(fmt.Errorf("cargen: tx marshal: %w", err))
	}
	ti.TxBytes = raw

	// metadata
	var metaZ []byte
	if ts.MetaSize >= 0 {
		m := &confirmed_block.TransactionStatusMeta{Fee: 5000 + uint64(r.intn(100000))}
		ti.Fee = m.Fee
		nacc := len(keys) + len(ti.LoadedW) + len(ti.LoadedR)
		for i := 0; i < nacc; i++ {
			v := uint64(r.intn(1 << 30))
			m.PreBalances = append(m.PreBalances, v)
			m.PostBalances = append(m.PostBalances, v+uint64(r.intn(1000)))
		}
		if ts.Failed {
			// bincode TransactionError::InstructionError(0, InstructionError::Custom(7))
			m.Err = &confirmed_block.TransactionError{Err: []byte{8, 0, 0, 0, 0, 25, 0, 0, 0, 7, 0, 0, 0}}
		}
		m.LogMessages = []string{"Program 11111111111111111111111111111111 invoke [1]"}
		for n := 0; n < ts.MetaSize; n += 64 {
			m.LogMessages = append(m.LogMessages, hex.EncodeToString(r.bytes(32)))
		}
		for _, k := range ti.LoadedW {
			m.LoadedWritableAddresses = append(m.LoadedWritableAddresses, append([]byte{}, k[:]...))
		}
		for _, k := range ti.LoadedR {
			m.LoadedReadonlyAddresses = append(m.LoadedReadonlyAddresses, append([]byte{}, k[:]...))
		}
		mraw, err := proto.MarshalOptions{Deterministic: true}.Marshal(m)
		if err != nil {
			panic(err)
		}
		ti.MetaRaw = mraw
		metaZ = Compress(mraw)
	}
	ti.MetaZ = metaZ
	frames := ts.MetaFrames
	if frames < 1 || metaZ == nil {
		frames = 1
	}
	ti.MetaFrames = frames
	metaFirst, rest, restCids := SplitFrames(metaZ, b.frameOpts(frames, ts.Fanout))
	for i := range rest {
		b.add(KindDataFrame, restCids[i], rest[i])
	}
	dataFirst, _, _ := SplitFrames(raw, b.frameOpts(1, 1))
	node := ipldbindcode.Transaction{Kind: KindTransaction, Data: dataFirst, Metadata: metaFirst, Slot: int(slot)}
	if b.spec.TxIndex {
		node.Index = pp(pos)
	} else if r.intn(2) == 0 {
		node.Index = nullInt()
	}
	enc := encode(&node, ipldbindcode.Prototypes.Transaction)
	ti.Cid = cidOf(enc)
	ti.ObjIdx = b.add(KindTransaction, ti.Cid, enc)
	return ti
}

func (b *builder) buildBlock(bs *BlockSpec, idx int, slot, parent uint64, height uint64) *BlockInfo {
	b.curBlk = idx
	bi := &BlockInfo{Idx: idx, Slot: slot, Parent: parent, Blocktime: bs.Blocktime, FirstObj: len(b.ep.Objects)}
	pos := 0
	var entryLinks ipldbindcode.List__Link
	var shred ipldbindcode.List__Shredding
	for ei := range bs.Entries {
		es := &bs.Entries[ei]
		var info EntryInfo
		var txLinks ipldbindcode.List__Link
		for ti := range es.Txs {
			t := b.buildTx(&es.Txs[ti], slot, pos, idx, bs.Blocktime)
			pos++
			info.Txs = append(info.Txs, t)
			bi.Txs = append(bi.Txs, t)
			b.ep.Txs = append(b.ep.Txs, t)
			txLinks = append(txLinks, link(t.Cid))
		}
		h := sha256.Sum256([]byte(fmt.Sprintf("vf-entry-hash-%d-%d-%d", b.spec.Seed, slot, ei)))
		info.Hash = h[:]
		en := ipldbindcode.Entry{Kind: KindEntry, NumHashes: es.NumHashes, Hash: h[:], Transactions: txLinks}
		if en.Transactions == nil {
			en.Transactions = ipldbindcode.List__Link{}
		}
		enc := encode(&en, ipldbindcode.Prototypes.Entry)
		info.Cid = cidOf(enc)
		b.add(KindEntry, info.Cid, enc)
		entryLinks = append(entryLinks, link(info.Cid))
		if !bs.NoShredding {
			shred = append(shred, ipldbindcode.Shredding{EntryEndIdx: ei, ShredEndIdx: -1 + 2*(ei%2)*(ei+1)})
		}
		bi.Entries = append(bi.Entries, info)
	}
	if len(bi.Entries) > 0 {
		bi.HasEntries = true
		bi.Blockhash = solana.HashFromBytes(bi.Entries[len(bi.Entries)-1].Hash)
	}
	// rewards
	rewardsLink := link(DummyCID)
	if bs.Rewards > 0 {
		rw := &confirmed_block.Rewards{}
		r := prng{x: b.spec.Seed ^ slot<<1 ^ 0x7777}
		for i := 0; i < bs.RewardsSize; i++ {
			rw.Rewards = append(rw.Rewards, &confirmed_block.Reward{Pubkey: Acct(i % 6).String(), Lamports: int64(r.intn(1 << 20)), PostBalance: uint64(r.intn(1 << 30)), RewardType: confirmed_block.RewardType(1 + r.intn(4)), Commission: ""})
		}
		raw, err := proto.MarshalOptions{Deterministic: true}.Marshal(rw)
		if err != nil {
			panic(err)
		}
		bi.RewardsRaw = raw
		z := Compress(raw)
		first, rest, restCids := SplitFrames(z, b.frameOpts(bs.Rewards, 1+int(slot%4)))
		for i := range rest {
			b.add(KindDataFrame, restCids[i], rest[i])
		}
		rn := ipldbindcode.Rewards{Kind: KindRewards, Slot: int(slot), Data: first}
		enc := encode(&rn, ipldbindcode.Prototypes.Rewards)
		bi.RewardsCid = cidOf(enc)
		b.add(KindRewards, bi.RewardsCid, enc)
		rewardsLink = link(bi.RewardsCid)
	}
	meta := ipldbindcode.SlotMeta{Parent_slot: int(parent), Blocktime: int(bs.Blocktime)}
	if bs.HasHeight {
		hh := height
		bi.Height = &hh
		meta.Block_height = pp(int(height))
	} else if slot%2 == 0 {
		meta.Block_height = nullInt()
	}
	if entryLinks == nil {
		entryLinks = ipldbindcode.List__Link{}
	}
	if shred == nil {
		shred = ipldbindcode.List__Shredding{}
	}
	bn := ipldbindcode.Block{Kind: KindBlock, Slot: int(slot), Shredding: shred, Entries: entryLinks, Meta: meta, Rewards: rewardsLink}
	enc := encode(&bn, ipldbindcode.Prototypes.Block)
	bi.Cid = cidOf(enc)
	bi.ObjIdx = b.add(KindBlock, bi.Cid, enc)
	return bi
}

// Build expands a spec into a CAR and its ground truth.
func Build(spec *EpochSpec) (ep *Epoch, err error) {
	defer func() {
		if r := recover(); r != nil {
			err = fmt.Errorf("cargen.Build: %v", r)
		}
	}()
	b := &builder{spec: spec, ep: &Epoch{Spec: spec, Num: spec.Epoch, SlotIndex: map[uint64]*BlockInfo{}}, rng: prng{x: spec.Seed}}
	first := spec.Epoch * SlotsPerEpoch
	last := first + SlotsPerEpoch - 1
	slot := first
	var subsetLinks ipldbindcode.List__Link
	var curBlocks ipldbindcode.List__Link
	var subsetFirst uint64
	closeSubset := func(lastSlot uint64) {
		if len(curBlocks) == 0 {
			return
		}
		b.curBlk = -1
		sn := ipldbindcode.Subset{Kind: KindSubset, First: int(subsetFirst), Last: int(lastSlot), Blocks: curBlocks}
		enc := encode(&sn, ipldbindcode.Prototypes.Subset)
		c := cidOf(enc)
		if spec.RootHash == 3 && len(subsetLinks) == 0 {
			// long-header variant: the first subset is addressed by a sha2-512 CID, so that an Epoch node with two
			// subsets is ~122 bytes and the identity root CID over it ~126 bytes (header body > 127 bytes, and the
			// root still fits into the index file names)
			sum, _ := mh.Sum(enc, mh.SHA2_512, -1)
			c = cid.NewCidV1(cid.DagCBOR, sum)
		}
		b.add(KindSubset, c, enc)
		subsetLinks = append(subsetLinks, link(c))
		curBlocks = nil
	}
	var prevSlot uint64
	specs := append([]BlockSpec{}, spec.Blocks...)
	for i := 0; i < spec.BulkBlocks; i++ {
		bs := BlockSpec{Gap: 1 + i%3, Blocktime: int64(1600000000 + i), HasHeight: true}
		es := EntrySpec{NumHashes: 1}
		for j := 0; j < spec.BulkTxPerBlock; j++ {
			es.Txs = append(es.Txs, TxSpec{Seed: uint32(i*131 + j), NSigs: 1, Accounts: []int{(i + j) % 6}, MetaSize: 0, MetaFrames: 1, Fanout: 1, Vote: j%3 == 0})
		}
		bs.Entries = []EntrySpec{es}
		bs.SubsetBreak = i%5000 == 4999
		specs = append(specs, bs)
	}
	for i := range specs {
		bs := &specs[i]
		var parent uint64
		if i == 0 {
			slot = first + uint64(bs.Gap)
			if spec.Epoch == 0 {
				// real ledgers: slot 0 has parent 0 and is followed by slot 1; a chain that
				// starts later has an unarchived parent 0 (the server treats parent_slot 0
				// as "no parent" except for slot 1, whose parent must then be archived)
				if slot == 1 {
					slot = 2
				}
				parent = 0
			} else if spec.ParentInPrev {
				parent = first - 1 - uint64(spec.Seed%7)
			} else {
				parent = first - 1
			}
		} else {
			slot = prevSlot + uint64(bs.Gap)
			if spec.Epoch == 0 && prevSlot == 0 {
				slot = 1
			}
			parent = prevSlot
		}
		if slot > last {
			break
		}
		if len(curBlocks) == 0 {
			subsetFirst = slot
		}
		bi := b.buildBlock(bs, i, slot, parent, 1000+uint64(i)+spec.Epoch*400000)
		b.ep.Blocks = append(b.ep.Blocks, bi)
		b.ep.SlotIndex[slot] = bi
		curBlocks = append(curBlocks, link(bi.Cid))
		prevSlot = slot
		if bs.SubsetBreak {
			closeSubset(slot)
		}
	}
	closeSubset(prevSlot)
	b.curBlk = -1
	en := ipldbindcode.Epoch{Kind: KindEpoch, Epoch: int(spec.Epoch), Subsets: subsetLinks}
	enc := encode(&en, ipldbindcode.Prototypes.Epoch)
	var root cid.Cid
	switch spec.RootHash {
	case 1:
		sum, _ := mh.Sum(enc, mh.SHA2_512, -1)
		root = cid.NewCidV1(cid.DagCBOR, sum)
	case 2:
		tr := spec.RootTrunc
		if tr < 20 || tr > 63 {
			tr = 40
		}
		sum, e := mh.Sum(enc, mh.SHA2_512, tr)
		if e != nil {
			panic(e)
		}
		root = cid.NewCidV1(cid.DagCBOR, sum)
	case 3:
		// identity multihash: the root CID inlines the Epoch node (two subsets, the first addressed by a sha2-512 CID), which makes the
		// CAR header longer than 127 bytes, i.e. its length prefix two bytes wide
		if len(subsetLinks) != 2 {
			// with more subsets (bulk epochs) the inlined Epoch node would not fit into the index file names
			root = cidOf(enc)
			break
		}
		sum, e := mh.Sum(enc, mh.IDENTITY, -1)
		if e != nil {
			panic(e)
		}
		root = cid.NewCidV1(cid.DagCBOR, sum)
	default:
		root = cidOf(enc)
	}
	b.add(KindEpoch, root, enc)
	b.ep.Root = root
	var hdr bytes.Buffer
	if err := carv1.WriteHeader(&carv1.CarHeader{Roots: []cid.Cid{root}, Version: 1}, &hdr); err != nil {
		return nil, err
	}
	b.ep.HeaderLen = uint64(hdr.Len())
	off := b.ep.HeaderLen
	total := hdr.Len()
	for _, s := range b.secs {
		total += len(s)
	}
	car := make([]byte, 0, total)
	car = append(car, hdr.Bytes()...)
	for i, s := range b.secs {
		b.ep.Objects[i].Offset = off
		off += uint64(len(s))
		car = append(car, s...)
	}
	b.ep.Car = car
	return b.ep, nil
}

func (e *Epoch) WriteFile(path string) error { return os.WriteFile(path, e.Car, 0o644) }

// FirstSlot / LastSlot of the epoch range.
func (e *Epoch) FirstSlot() uint64 { return e.Num * SlotsPerEpoch }
func (e *Epoch) LastSlot() uint64  { return e.Num*SlotsPerEpoch + SlotsPerEpoch - 1 }

// Summary is a short printable description for evidence samples.
func (e *Epoch) Summary() map[string]any {
	return map[string]any{"epoch": e.Num, "blocks": len(e.Blocks), "txs": len(e.Txs), "objects": len(e.Objects), "carBytes": len(e.Car),
		"headerLen": e.HeaderLen, "varint1": e.Varint[1], "varint2": e.Varint[2], "varint3": e.Varint[3], "root": e.Root.String()}
}
