// Package cargen generates well-formed synthetic Solana epoch CARs together
// with their ground truth (every object's CID, byte offset, section length and
// payload; every block's and transaction's recorded fields). It is the shared
// generator of the /verif epoch-level checks and is injected into the
// repository build with `go test -overlay`; nothing here calls the code under
// test to learn where something is.
package cargen

import (
	"pgregory.net/rapid"
)

const SlotsPerEpoch = 432000

// TxSpec describes one transaction; everything else is derived from Seed.
type TxSpec struct {
	Seed       uint32
	V0         bool
	NSigs      int   // 1..3
	Vote       bool  // simple vote transaction (legacy, single Vote instruction)
	Failed     bool  // metadata carries an error
	Accounts   []int // indexes into the account universe mentioned as static keys
	LoadedW    []int // v0 only: loaded writable addresses (universe indexes)
	LoadedR    []int // v0 only: loaded readonly addresses
	MetaSize   int   // approx. bytes of log padding in the metadata; -1 = no metadata at all
	MetaFrames int   // number of data frames for the (compressed) metadata, >= 1
	Fanout     int   // next-list fan-out for multi-frame payloads
	NInst      int   // non-vote transactions: number of instructions (0 = 1 or 2, derived from the seed)
	VoteAt     int   // non-vote transactions: instruction VoteAt-1 invokes the Vote program (0 = none); such a transaction is not a simple vote
}

type EntrySpec struct {
	NumHashes int
	Txs       []TxSpec
}

type BlockSpec struct {
	Gap          int // slot distance from the previous block (>= 1); for the first block: offset inside the epoch
	Entries      []EntrySpec
	Blocktime    int64
	HasHeight    bool
	Rewards      int // 0 none (DummyCID), 1 single frame, >1 that many frames
	RewardsSize  int
	NoShredding  bool
	SubsetBreak  bool // close the current subset after this block
	PadBeforeLen int  // unused, reserved
}

type EpochSpec struct {
	Epoch        uint64
	Seed         uint64
	RootHash     int  // 0 sha2-256, 1 sha2-512, 2 sha2-512 truncated to RootTrunc bytes, 3 identity (the root CID inlines the Epoch node)
	RootTrunc    int  // 20..63
	FnvHash      bool // legacy FNV-1a checksum in data frames instead of CRC64
	NoHash       bool // frames without hash/index/total (oldest archives): single-frame payloads only
	TxIndex      bool // transactions carry their position index
	ParentInPrev bool // first block's parent lies in the previous epoch (else parent = 0 / previous)
	NextNull     bool // single frames encode `next` as null instead of omitting it
	Blocks       []BlockSpec
	// Bulk appends BulkBlocks uniform blocks (each one entry with BulkTxPerBlock
	// small transactions) to reach bucket-boundary item counts cheaply.
	BulkBlocks     int
	BulkTxPerBlock int
}

// GenOpts bounds the generator.
type GenOpts struct {
	Epochs        []uint64 // choices for the epoch number
	MinBlocks     int
	MaxBlocks     int
	MaxEntries    int
	MaxTxPerEntry int
	MaxGap        int
	AllowEmpty    bool // blocks without entries / entries without transactions
	EmptyEntries  bool // entries without transactions (even when AllowEmpty is false)
	BigFrames     bool // allow sections with 3-byte length varints (>= 16 KiB frames)
	Universe      int  // size of the account universe used by Accounts/Loaded
	NoMetaOK      bool // allow transactions without metadata
	ForceTxIndex  bool
	MinTx         int // at least this many transactions in the epoch
}

func DefaultOpts() GenOpts {
	return GenOpts{Epochs: []uint64{0, 1, 2, 7, 1000, 1000000}, MinBlocks: 1, MaxBlocks: 12, MaxEntries: 3, MaxTxPerEntry: 3,
		MaxGap: 5, AllowEmpty: true, BigFrames: true, Universe: 6, NoMetaOK: true, MinTx: 1}
}

func genTx(t *rapid.T, o GenOpts, allowBig bool) TxSpec {
	var tx TxSpec
	tx.Seed = rapid.Uint32().Draw(t, "txSeed")
	kind := rapid.SampledFrom([]string{"legacy", "legacy", "vote", "v0", "v0-lookups", "legacy-multi"}).Draw(t, "txKind")
	tx.NSigs = rapid.SampledFrom([]int{1, 1, 2, 3}).Draw(t, "nSigs")
	switch kind {
	case "vote":
		tx.Vote = true
		if tx.NSigs > 2 {
			tx.NSigs = 2
		}
	case "legacy-multi":
		// several instructions, one of which may invoke the Vote program: by the definition the server quotes
		// (1-2 signatures, legacy message, a single instruction, which is Vote) this is never a simple vote
		tx.NInst = rapid.IntRange(2, 4).Draw(t, "nInst")
		tx.VoteAt = rapid.IntRange(0, tx.NInst).Draw(t, "voteAt")
	case "v0":
		tx.V0 = true
	case "v0-lookups":
		tx.V0 = true
		tx.LoadedW = rapid.SliceOfNDistinct(rapid.IntRange(0, o.Universe-1), 0, 2, rapid.ID[int]).Draw(t, "loadedW")
		tx.LoadedR = rapid.SliceOfNDistinct(rapid.IntRange(0, o.Universe-1), 0, 2, rapid.ID[int]).Draw(t, "loadedR")
	}
	tx.Failed = rapid.IntRange(0, 3).Draw(t, "failed") == 0
	tx.Accounts = rapid.SliceOfNDistinct(rapid.IntRange(0, o.Universe-1), 0, 3, rapid.ID[int]).Draw(t, "accounts")
	sizes := []int{0, 10, 60, 200, 700}
	if allowBig {
		sizes = append(sizes, 3000, 20000, 40000)
	}
	tx.MetaSize = rapid.SampledFrom(sizes).Draw(t, "metaSize")
	if o.NoMetaOK && rapid.IntRange(0, 9).Draw(t, "noMeta") == 0 {
		tx.MetaSize = -1
	}
	tx.MetaFrames = 1
	if tx.MetaSize >= 200 && rapid.Bool().Draw(t, "multiFrame") {
		tx.MetaFrames = rapid.SampledFrom([]int{2, 3, 5, 10, 11, 23}).Draw(t, "metaFrames")
	}
	tx.Fanout = rapid.SampledFrom([]int{1, 2, 5, 10}).Draw(t, "fanout")
	return tx
}

// Gen draws an epoch spec.
func Gen(t *rapid.T, o GenOpts) *EpochSpec {
	s := &EpochSpec{}
	s.Epoch = rapid.SampledFrom(o.Epochs).Draw(t, "epoch")
	s.Seed = rapid.Uint64().Draw(t, "epochSeed")
	s.RootHash = rapid.IntRange(0, 2).Draw(t, "rootHash")
	s.RootTrunc = rapid.IntRange(20, 63).Draw(t, "rootTrunc")
	variant := rapid.SampledFrom([]string{"modern", "modern", "modern", "fnv", "nohash", "noindex"}).Draw(t, "variant")
	s.TxIndex = true
	switch variant {
	case "fnv":
		s.FnvHash = true
	case "nohash":
		s.NoHash = true
	case "noindex":
		s.TxIndex = false
	}
	if o.ForceTxIndex {
		s.TxIndex = true
	}
	s.ParentInPrev = rapid.Bool().Draw(t, "parentInPrev")
	s.NextNull = rapid.Bool().Draw(t, "nextNull")
	nb := rapid.IntRange(o.MinBlocks, o.MaxBlocks).Draw(t, "nBlocks")
	ntx := 0
	for b := 0; b < nb; b++ {
		var bs BlockSpec
		if b == 0 {
			bs.Gap = rapid.SampledFrom([]int{0, 0, 1, 2, 17, 1000, SlotsPerEpoch - 5000}).Draw(t, "firstOffset")
		} else {
			bs.Gap = rapid.IntRange(1, o.MaxGap).Draw(t, "gap")
		}
		ne := rapid.IntRange(1, o.MaxEntries).Draw(t, "nEntries")
		if o.AllowEmpty && rapid.IntRange(0, 9).Draw(t, "emptyBlock") == 0 {
			ne = 0
		}
		for e := 0; e < ne; e++ {
			var es EntrySpec
			es.NumHashes = rapid.SampledFrom([]int{0, 1, 12500, 800000}).Draw(t, "numHashes")
			nt := rapid.IntRange(0, o.MaxTxPerEntry).Draw(t, "nTx")
			if !o.AllowEmpty && !o.EmptyEntries && nt == 0 {
				nt = 1
			}
			for i := 0; i < nt; i++ {
				tx := genTx(t, o, o.BigFrames)
				if s.NoHash {
					tx.MetaFrames = 1
				}
				es.Txs = append(es.Txs, tx)
				ntx++
			}
			bs.Entries = append(bs.Entries, es)
		}
		bs.Blocktime = rapid.OneOf(rapid.Just(int64(0)), rapid.Int64Range(1, 1<<32-1), rapid.SampledFrom([]int64{1, 1584368940, 1<<31 - 1, 1 << 31, 1<<32 - 1})).Draw(t, "blocktime")
		bs.HasHeight = rapid.Bool().Draw(t, "hasHeight")
		bs.Rewards = rapid.SampledFrom([]int{0, 0, 1, 1, 2, 7}).Draw(t, "rewards")
		if s.NoHash && bs.Rewards > 1 {
			bs.Rewards = 1
		}
		bs.RewardsSize = rapid.SampledFrom([]int{1, 3, 40}).Draw(t, "rewardsN")
		bs.NoShredding = rapid.IntRange(0, 4).Draw(t, "noShred") == 0
		bs.SubsetBreak = rapid.IntRange(0, 3).Draw(t, "subsetBreak") == 0
		s.Blocks = append(s.Blocks, bs)
	}
	// the property's domain needs >= MinTx transactions: top up the last block
	for ntx < o.MinTx {
		last := &s.Blocks[len(s.Blocks)-1]
		if len(last.Entries) == 0 {
			last.Entries = append(last.Entries, EntrySpec{NumHashes: 1})
		}
		le := &last.Entries[len(last.Entries)-1]
		tx := genTx(t, o, false)
		if s.NoHash {
			tx.MetaFrames = 1
		}
		le.Txs = append(le.Txs, tx)
		ntx++
	}
	// a CAR header of more than 127 bytes (two-byte length prefix): identity root CID over an Epoch node with exactly
	// two subsets, the first one addressed by a sha2-512 CID (longer roots do not fit into the index file names)
	if len(s.Blocks) >= 2 && s.Epoch < 1000 && rapid.IntRange(0, 5).Draw(t, "longHeader") == 0 {
		s.RootHash = 3
		for i := range s.Blocks {
			s.Blocks[i].SubsetBreak = i == 0
		}
	}
	// the last block on the very last slot of the epoch (the last entry of every per-slot table)
	if rapid.IntRange(0, 5).Draw(t, "tailOnLastSlot") == 0 && (s.Epoch > 0 || len(s.Blocks) > 2) {
		span := 0
		for _, b := range s.Blocks[1:] {
			span += b.Gap
		}
		s.Blocks[0].Gap = SlotsPerEpoch - 1 - span
	}
	return s
}
