// Package vfh is the small runtime shared by all /verif harnesses: tier/seed
// configuration, per-run statistics (class counters, distinct non-trivial
// cases, samples), known-finding bookkeeping and replay files.
//
// It is injected into the repository build through `go test -overlay` as
// github.com/rpcpool/yellowstone-faithful/zz_verif/vfh and is never committed
// to /repo.
package vfh

import (
	"crypto/sha256"
	"encoding/hex"
	"encoding/json"
	"fmt"
	"os"
	"path/filepath"
	"sort"
	"strconv"
	"strings"
	"sync"
	"testing"
	"time"
)

// Tier returns "quick" or "thorough".
func Tier() string {
	if os.Getenv("VERIF_TIER") == "thorough" {
		return "thorough"
	}
	return "quick"
}

func Thorough() bool { return Tier() == "thorough" }

// Pick returns q in the quick tier and th in the thorough tier.
func Pick(q, th int) int {
	if Thorough() {
		return th
	}
	return q
}

// EnvInt reads an integer from the environment with a default.
func EnvInt(name string, def int) int {
	if v := os.Getenv(name); v != "" {
		if n, err := strconv.Atoi(v); err == nil {
			return n
		}
	}
	return def
}

// Shard returns (index, count) of this process among its siblings.
func Shard() (int, int) {
	return EnvInt("VERIF_SHARD", 0), EnvInt("VERIF_SHARDS", 1)
}

// Seed is the user-facing VERIF_SEED (default 1).
func Seed() int { return EnvInt("VERIF_SEED", 1) }

// ---------------------------------------------------------------------------
// known findings

type Finding struct {
	Property string `json:"property"`
	Class    string `json:"class"`
	Status   string `json:"status"` // "open" or "fixed"
	Commit   string `json:"commit,omitempty"`
	What     string `json:"what"`
}

var (
	kfOnce sync.Once
	kfList []Finding
)

func loadKnown() {
	kfOnce.Do(func() {
		p := os.Getenv("VERIF_KNOWN")
		if p == "" {
			return
		}
		b, err := os.ReadFile(p)
		if err != nil {
			return
		}
		var doc struct {
			Findings []Finding `json:"findings"`
		}
		if json.Unmarshal(b, &doc) == nil {
			kfList = doc.Findings
		}
	})
}

// KnownOpen reports whether (property, class) is listed as an open finding. An
// open class is excluded by construction from the main search and probed in a
// separate confirmation step.
func KnownOpen(property, class string) bool {
	loadKnown()
	for _, f := range kfList {
		if f.Property == property && f.Class == class && f.Status == "open" {
			return true
		}
	}
	return false
}

// ---------------------------------------------------------------------------
// run statistics

type Run struct {
	mu          sync.Mutex
	Property    string
	Unit        string
	start       time.Time
	evals       int
	classes     map[string]int
	nontrivial  map[string]struct{}
	samples     []json.RawMessage
	maxSamples  int
	last        any
	lastSet     bool
	excluded    map[string]int
	known       []string
	notes       map[string]any
	requireList []string
}

// Begin starts the bookkeeping of one harness unit (one Test function).
func Begin(property, unit string) *Run {
	return &Run{
		Property: property, Unit: unit, start: time.Now(),
		classes: map[string]int{}, nontrivial: map[string]struct{}{},
		maxSamples: 6, excluded: map[string]int{}, notes: map[string]any{},
	}
}

// Require declares classes that must be reached (count > 0); the driver turns a
// missing one into "inconclusive" (exit 2) in the quick tier.
func (r *Run) Require(classes ...string) {
	r.mu.Lock()
	defer r.mu.Unlock()
	r.requireList = append(r.requireList, classes...)
}

// SetLast remembers the case about to be evaluated; it becomes the replay file
// if the test fails (rapid re-runs the shrunk case last).
func (r *Run) SetLast(c any) {
	r.mu.Lock()
	r.last = c
	r.lastSet = true
	r.mu.Unlock()
}

func keyOf(c any) string {
	var b []byte
	switch v := c.(type) {
	case string:
		b = []byte(v)
	case []byte:
		b = v
	default:
		b, _ = json.Marshal(c)
	}
	h := sha256.Sum256(b)
	return hex.EncodeToString(h[:8])
}

// Case records one evaluated case. key identifies the case for distinctness
// (any JSON-able value or string); sample (may be nil) is a short printable
// form kept for the evidence file.
func (r *Run) Case(key any, nontrivial bool, sample any, classes ...string) {
	r.mu.Lock()
	defer r.mu.Unlock()
	r.evals++
	for _, c := range classes {
		r.classes[c]++
	}
	if nontrivial {
		k := keyOf(key)
		if _, ok := r.nontrivial[k]; !ok {
			r.nontrivial[k] = struct{}{}
			if sample != nil && len(r.samples) < r.maxSamples {
				b, err := json.Marshal(sample)
				if err == nil {
					if len(b) > 1500 {
						b, _ = json.Marshal(string(b[:1500]) + "...(truncated)")
					}
					r.samples = append(r.samples, b)
				}
			}
		}
	}
}

// Class bumps class counters without counting an evaluation.
func (r *Run) Class(classes ...string) {
	r.mu.Lock()
	for _, c := range classes {
		r.classes[c]++
	}
	r.mu.Unlock()
}

// ClassN adds n to a class counter.
func (r *Run) ClassN(class string, n int) {
	r.mu.Lock()
	r.classes[class] += n
	r.mu.Unlock()
}

// Evals adds n evaluations that are not individually recorded with Case.
func (r *Run) Evals(n int) {
	r.mu.Lock()
	r.evals += n
	r.mu.Unlock()
}

// Excluded counts a draw that was excluded by construction because it belongs
// to an open known finding.
func (r *Run) Excluded(class string) {
	r.mu.Lock()
	r.excluded[class]++
	r.mu.Unlock()
}

// Note stores a free-form value in the stats (e.g. transforms applied).
func (r *Run) Note(k string, v any) {
	r.mu.Lock()
	r.notes[k] = v
	r.mu.Unlock()
}

// KnownFinding prints the KNOWN-FINDING line for a confirmed open finding.
func (r *Run) KnownFinding(class, what string) {
	line := fmt.Sprintf("KNOWN-FINDING: property=%s %s [%s]", r.Property, what, class)
	fmt.Println(line)
	r.mu.Lock()
	r.known = append(r.known, line)
	r.mu.Unlock()
}

// ReplayDir is where failing cases are dumped.
func ReplayDir() string {
	d := os.Getenv("VERIF_REPLAY_DIR")
	if d == "" {
		d = "vf-replays"
	}
	_ = os.MkdirAll(d, 0o755)
	return d
}

// DumpReplay writes a replay file for a failing case and prints the marker the
// driver converts into the VIOLATION line.
func (r *Run) DumpReplay(c any, why string) string {
	doc := map[string]any{"property": r.Property, "unit": r.Unit, "why": why, "case": c}
	b, err := json.MarshalIndent(doc, "", " ")
	if err != nil {
		b = []byte(fmt.Sprintf(`{"property":%q,"unit":%q,"why":%q,"case_unserializable":%q}`, r.Property, r.Unit, why, fmt.Sprint(c)))
	}
	name := fmt.Sprintf("%s-%s-%s.json", r.Property, r.Unit, keyOf(b))
	p := filepath.Join(ReplayDir(), name)
	_ = os.WriteFile(p, b, 0o644)
	abs, _ := filepath.Abs(p)
	fmt.Printf("VF-VIOLATION property=%s unit=%s replay=%s\n", r.Property, r.Unit, abs)
	return abs
}

// Abort reports a violation that cannot be shrunk or survived (e.g. a call that
// never returns and keeps a goroutine spinning): it writes the replay file and
// the statistics and terminates the process with exit status 1.
func (r *Run) Abort(c any, why string) {
	r.DumpReplay(c, why)
	fmt.Printf("VF-ABORT %s\n", why)
	r.flush(true, why)
	os.Exit(1)
}

// AbortLast is Abort with the case most recently registered with SetLast.
func (r *Run) AbortLast(why string) {
	r.mu.Lock()
	last, ok := r.last, r.lastSet
	r.mu.Unlock()
	if !ok {
		last = nil
	}
	r.Abort(last, why)
}

// End must be deferred by the Test function: it writes the stats line and, if
// the test failed, the replay file of the last evaluated case.
func (r *Run) End(t testing.TB) {
	if rec := recover(); rec != nil {
		// a panic outside rapid (harness code): still flush what we have
		r.flush(true, fmt.Sprint(rec))
		panic(rec)
	}
	if d, err := os.ReadDir("/proc/self/fd"); err == nil {
		r.Note("open_fds_at_end", len(d))
	}
	failed := t.Failed()
	why := ""
	if failed {
		why = "test failed (see log)"
		r.mu.Lock()
		last, ok := r.last, r.lastSet
		r.mu.Unlock()
		if ok {
			r.DumpReplay(last, why)
		} else {
			r.DumpReplay(nil, why)
		}
	}
	r.flush(failed, why)
}

func (r *Run) flush(failed bool, why string) {
	p := os.Getenv("VERIF_STATS")
	if p == "" {
		return
	}
	r.mu.Lock()
	defer r.mu.Unlock()
	keys := make([]string, 0, len(r.nontrivial))
	for k := range r.nontrivial {
		keys = append(keys, k)
	}
	sort.Strings(keys)
	if len(keys) > 300000 {
		keys = keys[:300000]
	}
	missing := []string{}
	for _, c := range r.requireList {
		if r.classes[c] == 0 {
			missing = append(missing, c)
		}
	}
	sh, shs := Shard()
	doc := map[string]any{
		"property": r.Property, "unit": r.Unit, "evaluations": r.evals,
		"classes": r.classes, "nontrivial_keys": keys, "nontrivial_count": len(r.nontrivial),
		"samples": r.samples, "excluded": r.excluded, "known": r.known, "notes": r.notes,
		"failed": failed, "why": why, "wall_s": time.Since(r.start).Seconds(),
		"missing_required": missing, "required": r.requireList, "shard": sh, "shards": shs,
	}
	b, _ := json.Marshal(doc)
	f, err := os.OpenFile(p, os.O_CREATE|os.O_APPEND|os.O_WRONLY, 0o644)
	if err != nil {
		return
	}
	defer f.Close()
	f.Write(append(b, '\n'))
}

// LoadReplay unmarshals the "case" member of the file named by VERIF_REPLAY
// into v. It returns false when no replay was requested.
func LoadReplay(t testing.TB, v any) bool {
	p := os.Getenv("VERIF_REPLAY")
	if p == "" {
		return false
	}
	b, err := os.ReadFile(p)
	if err != nil {
		t.Fatalf("replay file: %v", err)
	}
	var doc struct {
		Case json.RawMessage `json:"case"`
	}
	if err := json.Unmarshal(b, &doc); err != nil {
		t.Fatalf("replay file: %v", err)
	}
	if err := json.Unmarshal(doc.Case, v); err != nil {
		t.Fatalf("replay case: %v", err)
	}
	return true
}

// ReplayFiles lists committed replay cases (regression tier) for a property
// unit: $VERIF_REGRESS_DIR/<property>/<unit>-*.json
func ReplayFiles(property, unit string) []string {
	d := os.Getenv("VERIF_REGRESS_DIR")
	if d == "" {
		return nil
	}
	m, _ := filepath.Glob(filepath.Join(d, property, unit+"-*.json"))
	sort.Strings(m)
	return m
}

// LoadCaseFile unmarshals the "case" member of path into v.
func LoadCaseFile(path string, v any) error {
	b, err := os.ReadFile(path)
	if err != nil {
		return err
	}
	var doc struct {
		Case json.RawMessage `json:"case"`
	}
	if err := json.Unmarshal(b, &doc); err != nil {
		return err
	}
	return json.Unmarshal(doc.Case, v)
}

// Short renders a value for samples.
func Short(v any, max int) string {
	s := fmt.Sprint(v)
	if len(s) > max {
		return s[:max] + "..."
	}
	return s
}

// Catch runs f and converts a panic into an error (with the panic value).
func Catch(f func() error) (err error, panicked bool) {
	defer func() {
		if r := recover(); r != nil {
			err = fmt.Errorf("panic: %v", r)
			panicked = true
		}
	}()
	return f(), false
}

// TmpDir makes a scratch directory under $VERIF_TMP (or the cwd).
func TmpDir(prefix string) string {
	base := os.Getenv("VERIF_TMP")
	if base == "" {
		base = "."
	}
	_ = os.MkdirAll(base, 0o755)
	d, err := os.MkdirTemp(base, strings.ReplaceAll(prefix, "/", "_"))
	if err != nil {
		panic(err)
	}
	return d
}
